package main

import (
	"go/ast"
	"fmt"
	"os"
	"strings"
	"go/token"
	"go/types"
	"sort"

	"golang.org/x/tools/go/ssa"
)

// ---------------------------------------------------------------------------
// Calls
// ---------------------------------------------------------------------------

func (fx *FuncExec) call(ps *pathState, x *ssa.Call) {
	st := ps.st
	c := fx.c
	cc := x.Common()
	if b, ok := cc.Value.(*ssa.Builtin); ok {
		// rule-site assertions can be anchored at builtin calls too (delete#k, append#k, copy#k)
		if site := fx.callOrd[x]; site != "" && b.Name() != "len" && b.Name() != "cap" {
			// arg0, arg1, ... name the actual arguments here too (append: arg1 is the slice of appended elements)
			argVars := map[string]Val{}
			if fx.con != nil && len(fx.con.Sites) > 0 {
				for i, a := range cc.Args {
					argVars[fmt.Sprintf("arg%d", i)] = fx.val(st, a)
				}
			}
			fx.siteAsserts(ps, site, "before", argVars)
		}
		fx.builtin(ps, x, b)
		return
	}
	if f, ok := cc.Value.(*ssa.Function); ok && f.Name() == "ssa:deferstack" {
		st.regs[x] = Scalar{Term{"ref_nil", SRef}, x.Type()}
		return
	}
	var args []Val
	for _, a := range cc.Args {
		args = append(args, fx.val(st, a))
	}
	site := fx.callOrd[x]
	if fx.con != nil && fx.con.Stop != "" && site == fx.con.Stop {
		// end of a region contract: check the ensures clauses here and stop this path
		fx.regionEnd(ps)
		ps.stopped = true
		return
	}
	// rule-site assertions before the call; arg0, arg1, ... name the actual arguments (receiver first)
	argVars := map[string]Val{}
	for i, a := range args {
		argVars[fmt.Sprintf("arg%d", i)] = a
	}
	fx.siteAsserts(ps, site, "before", argVars)

	var callee *ssa.Function
	var bindings []Val
	switch f := cc.Value.(type) {
	case *ssa.Function:
		callee = f
	case *ssa.MakeClosure:
		callee = f.Fn.(*ssa.Function)
		for _, b := range f.Bindings {
			bindings = append(bindings, fx.val(st, b))
		}
	default:
		if !cc.IsInvoke() {
			callee = fx.staticCallee(cc)
			if callee != nil && callee != fx.fn {
				// closure held in a local variable: its bindings are in the stored value
				if fv, ok := fx.val(st, cc.Value).(FuncV); ok {
					bindings = fv.Bindings
				}
			}
			if callee == nil {
				if fv, ok := fx.val(st, cc.Value).(FuncV); ok {
					callee = fv.Fn
					bindings = fv.Bindings
				}
			}
		}
	}
	var con *FuncContract
	ckey := ""
	if callee != nil {
		ckey, con = fx.pk.contractFor(callee)
	}
	var result Val
	if con != nil {
		fx.curBindings = bindings
		result = fx.callWithContract(ps, x, callee, ckey, con, args, site)
		fx.curBindings = nil
	} else {
		// no contract: results unconstrained, everything reachable from the arguments is havocked
		name := calleeName(cc, fx.fn)
		if fx.c.assumed == nil {
			fx.c.assumed = map[string]bool{}
		}
		fx.c.assumed["call without contract (result unconstrained, arguments' pointees havocked): "+name] = true
		if cc.IsInvoke() {
			args = append([]Val{fx.val(st, cc.Value)}, args...)
		}
		for _, a := range append(args, bindings...) {
			fx.havocReachable(st, a)
		}
		fx.havocGlobals(st)
		if callHasRefArgs(append(args, bindings...)) {
			// the callee may write objects we only know by reference
			st.bumpEpoch()
		}
		result = st.freshVal(x.Type(), x.Name(), 0)
	}
	st.regs[x] = result
	fx.logCall(st, calleeNameOnly(site), result)
	if ps.callRes == nil {
		ps.callRes = map[string]Val{}
	}
	ps.callRes[site] = result
	vars := map[string]Val{"result": result}
	if tv, ok := result.(TupleV); ok {
		for i, e := range tv.E {
			vars[fmt.Sprintf("result%d", i)] = e
		}
		if len(tv.E) > 0 {
			vars["result"] = tv.E[0]
		}
	}
	fx.siteAsserts(ps, site, "after", vars)
	_ = c
}

func (fx *FuncExec) siteAsserts(ps *pathState, site, when string, vars map[string]Val) {
	if fx.con == nil {
		return
	}
	// all assertions of a site are checked against the same state; only then they are assumed
	var proved []Term
	for i, sa := range fx.con.Sites {
		if fmt.Sprintf("%s#%d", sa.Callee, sa.K) != site || sa.When != when {
			continue
		}
		env := fx.specEnv(ps, token.NoPos, copyVars(vars))
		t := env.boolTerm(sa.Cl.Expr)
		fx.noteSpecErr(env, sa.Cl)
		if !sa.Assume {
			fx.addObl(fmt.Sprintf("assert.%s@%s %s", clauseName(sa.Cl, i), when, site), "assert", fx.prop(sa.Cl), sa.Cl.Text, sa.Cl.Line, false, ps.st, t, ps.trail)
		}
		proved = append(proved, t)
	}
	for _, t := range proved {
		ps.st.assume(t)
	}
}

func copyVars(v map[string]Val) map[string]Val {
	n := map[string]Val{}
	for k, x := range v {
		n[k] = x
	}
	return n
}

// staticCallee resolves the function a call goes to when that is statically known:
// direct calls, closure literals, the self-binding of a recursive closure, and local
// function variables that are assigned exactly one function.
func (fx *FuncExec) staticCallee(cc *ssa.CallCommon) *ssa.Function {
	if cc.IsInvoke() {
		return nil
	}
	switch f := cc.Value.(type) {
	case *ssa.Function:
		return f
	case *ssa.MakeClosure:
		return f.Fn.(*ssa.Function)
	case *ssa.UnOp:
		if f.Op != token.MUL {
			return nil
		}
		switch a := f.X.(type) {
		case *ssa.FreeVar:
			if fx.selfVars[a] {
				return fx.fn
			}
		case *ssa.Alloc:
			var target *ssa.Function
			for _, ref := range *a.Referrers() {
				st, ok := ref.(*ssa.Store)
				if !ok || st.Addr != ssa.Value(a) {
					continue
				}
				var fn *ssa.Function
				switch v := st.Val.(type) {
				case *ssa.MakeClosure:
					fn = v.Fn.(*ssa.Function)
				case *ssa.Function:
					fn = v
				default:
					return nil
				}
				if target != nil && target != fn {
					return nil
				}
				target = fn
			}
			return target
		}
	}
	return nil
}

// contractFor finds the contract of a callee (same package: contract file;
// other packages: extern declarations).
func (pk *PkgCtx) contractFor(f *ssa.Function) (string, *FuncContract) {
	if f.Pkg != nil && f.Pkg == pk.spkg {
		key := f.RelString(pk.tpkg)
		if con, ok := pk.contracts.Funcs[key]; ok {
			return key, con
		}
		return key, nil
	}
	key := f.String()
	if con, ok := pk.contracts.Externs[key]; ok {
		return key, con
	}
	// free functions of a few standard packages do not write program state (formatting, logging, string
	// and number helpers): they get an empty contract (fresh result, nothing modified) instead of the
	// "unknown code may write everything it reaches" treatment. Listed in the evidence as assumed.
	if f.Pkg != nil && f.Signature != nil && f.Signature.Recv() == nil && pureStdPkgs[f.Pkg.Pkg.Path()] && !strings.HasPrefix(f.Name(), "Fprint") && !strings.HasPrefix(f.Name(), "Fscan") && !strings.HasPrefix(f.Name(), "Sscan") {
		if pk.stdPure == nil {
			pk.stdPure = map[string]*FuncContract{}
		}
		if con, ok := pk.stdPure[key]; ok {
			return key, con
		}
		con := &FuncContract{Key: key, Prop: "", Extern: true, Line: "standard library (treated as pure)"}
		pk.stdPure[key] = con
		return key, con
	}
	// generic instantiations: try the origin
	if o := f.Origin(); o != nil {
		if con, ok := pk.contracts.Externs[o.String()]; ok {
			return o.String(), con
		}
		// the read-only helpers of package slices (no callbacks, operands not written)
		if o.Pkg != nil && o.Pkg.Pkg.Path() == "slices" && pureSlicesFuncs[o.Name()] {
			if pk.stdPure == nil {
				pk.stdPure = map[string]*FuncContract{}
			}
			okey := o.String()
			if con, ok := pk.stdPure[okey]; ok {
				return okey, con
			}
			con := &FuncContract{Key: okey, Prop: "", Extern: true, Line: "standard library (treated as pure)"}
			pk.stdPure[okey] = con
			return okey, con
		}
	}
	return key, nil
}

func (fx *FuncExec) callWithContract(ps *pathState, x *ssa.Call, callee *ssa.Function, ckey string, con *FuncContract, args []Val, site string) Val {
	st := ps.st
	vars := map[string]Val{}
	names := paramNames(callee, con)
	for i, a := range args {
		if i < len(names) {
			if i < len(callee.Params) {
				a = fx.adapt(st, a, callee.Params[i].Type())
			} else if sig := callee.Signature; sig != nil {
				// extern without body: use signature
				a = fx.adapt(st, a, sigParamType(sig, i))
			}
			vars[names[i]] = a
		}
	}
	pre := st.snapshot()
	var envFx *FuncExec
	if callee == fx.fn {
		// recursive call of a closure: captured variables are the same cells
		envFx = fx
		for _, fv := range fx.fn.FreeVars {
			if _, ok := vars[fv.Name()]; !ok {
				if v, ok := fx.freeVarValue(fv.Name(), st); ok {
					vars[fv.Name()] = v
				}
			}
		}
	}
	// a closure's contract may name the variables it captures: at the call site they are the cells the
	// closure was created with (their values before the call; used for the precondition)
	if callee != fx.fn && len(fx.curBindings) == len(callee.FreeVars) {
		for i, fv := range callee.FreeVars {
			if _, ok := vars[fv.Name()]; ok {
				continue
			}
			if p, ok := fx.curBindings[i].(PtrV); ok {
				if v, ok := st.load(p); ok {
					vars[fv.Name()] = v
				}
			}
		}
	}
	env := &SpecEnv{st: st, old: pre, vars: vars, fx: envFx}
	if fx.c.assumed == nil {
		fx.c.assumed = map[string]bool{}
	}
	if con.Extern {
		fx.c.assumed["assumed contract of external function "+ckey] = true
	} else if con.Trusted {
		fx.c.assumed["trusted contract (body not verified) of "+ckey] = true
	}
	for i, cl := range con.Requires {
		t := env.boolTerm(cl.Expr)
		fx.noteSpecErr(env, cl)
		if fx.con == nil || !fx.con.NoSafety {
			fx.addObl(fmt.Sprintf("pre.%s@call %s", clauseName(cl, i), site), "pre", fx.propOr(cl), cl.Text, fx.posStr(x.Pos()), false, st, t, ps.trail)
		}
		st.assume(t)
	}
	// recursion: variant decreases
	if callee == fx.fn && len(con.Decr) > 0 {
		for i, cl := range con.Decr {
			cur := env.intTerm(cl.Expr)
			fx.noteSpecErr(env, cl)
			fx.addObl(fmt.Sprintf("dec@call %s", site), "dec", fx.propOr(cl), "recursion variant decreases and is bounded: "+cl.Text, cl.Line, false, st, tAnd(tLt(cur, fx.decEntry[i]), tLe(intLit(0), fx.decEntry[i])), ps.trail)
		}
	} else if callee == fx.fn {
		fx.c.unsup("recursive call without decreases clause (termination not proved)")
	}
	// havoc the frame
	for _, cl := range con.Modifies {
		if nm, ft, ok := fx.pk.everyField(cl.Expr); ok {
			// `every(T, field)`: that field of all heap objects of type T
			fx.havocHeapField(st, nm, ft)
			continue
		}
		p, v, ok := env.lvalue(cl.Expr)
		if !ok {
			fx.specErrs = append(fx.specErrs, fmt.Sprintf("%s: modifies %s at call site: %v", cl.Line, cl.Text, env.err))
			env.err = nil
			continue
		}
		fx.havocLoc(st, p, v)
	}
	// results
	var result Val
	rt := x.Type()
	result = st.freshVal(rt, x.Name(), 0)
	rnames := con.Results
	if tv, ok := result.(TupleV); ok {
		for i, e := range tv.E {
			if i < len(rnames) {
				vars[rnames[i]] = e
			} else if sig := callee.Signature; sig != nil && sig.Results().At(i).Name() != "" {
				vars[sig.Results().At(i).Name()] = e
			}
			vars[fmt.Sprintf("result%d", i)] = e
		}
		if len(tv.E) > 0 {
			vars["result"] = tv.E[0]
		}
	} else if callee.Signature.Results().Len() == 1 {
		vars["result"] = result
		if len(rnames) > 0 {
			vars[rnames[0]] = result
		} else if n := callee.Signature.Results().At(0).Name(); n != "" {
			vars[n] = result
		}
	}
	if callee == fx.fn {
		for _, fv := range fx.fn.FreeVars {
			if v, ok := fx.freeVarValue(fv.Name(), st); ok {
				vars[fv.Name()] = v
			}
		}
	}
	env = &SpecEnv{st: st, old: pre, vars: vars, fx: envFx}
	assumed := 0
	for _, cl := range con.Ensures {
		// clauses about the callee's own ghost call logs say nothing the caller can use: evaluated here they
		// would read the caller's logs (and could make the path infeasible)
		if strings.Contains(cl.Text, "ncalls(") || strings.Contains(cl.Text, "calllog(") || strings.Contains(cl.Text, "resultof(") {
			continue
		}
		t := env.boolTerm(cl.Expr)
		fx.noteSpecErr(env, cl)
		st.assume(t)
		assumed++
	}
	// vacuity guard: the path must still be feasible after the callee's postconditions were assumed
	// (a contradictory or mis-evaluated contract would make everything after the call pass trivially)
	if assumed > 0 && fx.con != nil && site != "" {
		if fx.coverCalls == nil {
			fx.coverCalls = map[string]int{}
		}
		if fx.coverCalls[site] < 2 {
			fx.coverCalls[site]++
			fx.addObl("cover:call "+site, "cover", fx.con.Prop, "the path is feasible after assuming the callee's postconditions", fx.con.Line, true, st, tTrue, ps.trail)
		}
	}
	return result
}

func (fx *FuncExec) propOr(cl Clause) string {
	if fx.con != nil && fx.con.Prop != "" {
		return fx.con.Prop
	}
	return cl.Prop
}

func sigParamType(sig *types.Signature, i int) types.Type {
	if sig.Recv() != nil {
		if i == 0 {
			return sig.Recv().Type()
		}
		i--
	}
	if i < sig.Params().Len() {
		return sig.Params().At(i).Type()
	}
	return types.Typ[types.Int]
}

func paramNames(callee *ssa.Function, con *FuncContract) []string {
	var names []string
	if len(callee.Params) > 0 {
		for _, p := range callee.Params {
			names = append(names, p.Name())
		}
	} else if sig := callee.Signature; sig != nil {
		if sig.Recv() != nil {
			names = append(names, sig.Recv().Name())
		}
		for i := 0; i < sig.Params().Len(); i++ {
			names = append(names, sig.Params().At(i).Name())
		}
	}
	// explicit names in the contract header override (needed for externs whose
	// export data carries no parameter names)
	if con != nil && len(con.Params) > 0 {
		off := len(names) - len(con.Params)
		if off < 0 {
			off = 0
		}
		for i, n := range con.Params {
			if off+i < len(names) {
				names[off+i] = n
			} else {
				names = append(names, n)
			}
		}
	}
	return names
}

// ---------------------------------------------------------------------------
// Havoc
// ---------------------------------------------------------------------------

func (fx *FuncExec) havocLoc(st *State, p PtrV, cur Val) {
	if sl, ok := cur.(SliceV); ok && sl.Arr != 0 {
		if seq, ok := st.objs[sl.Arr].(SeqV); ok {
			st.objs[sl.Arr] = SeqV{Tree: fx.pk.seqTreeOf(fx.c, elemTypeOfSeq(seq), "havoc[]", false), N: seq.N, Typ: seq.Typ}
		}
	}
	if p.Obj == 0 && !isHeapPtr(p) {
		return
	}
	nv := st.freshVal(cur.Type(), "havoc", 0)
	if cur.Type() == nil {
		return
	}
	st.store(p, nv)
}

// havocReachable: an un-contracted callee may write everything it can reach
// through its arguments.
func (fx *FuncExec) havocReachable(st *State, a Val) {
	switch v := a.(type) {
	case PtrV:
		if v.Sym != "" || v.Obj == 0 {
			return
		}
		cur, ok := st.load(v)
		if !ok {
			return
		}
		fx.havocReachable(st, cur)
		st.store(v, st.freshVal(cur.Type(), "havoc", 0))
	case SliceV:
		if v.Arr != 0 {
			if seq, ok := st.objs[v.Arr].(SeqV); ok {
				st.objs[v.Arr] = SeqV{Tree: fx.pk.seqTreeOf(fx.c, elemTypeOfSeq(seq), "havoc[]", false), N: seq.N, Typ: seq.Typ}
			}
		}
	case StructV:
		for _, f := range v.F {
			fx.havocReachable(st, f)
		}
	case IfaceV:
		if v.V != nil {
			fx.havocReachable(st, v.V)
		}
	case FuncV:
		for i, b := range v.Bindings {
			// a captured variable: the callee can always reach what the variable refers to, but it can
			// assign the variable itself only if the closure body stores to it
			if bp, ok := b.(PtrV); ok && v.Fn != nil && i < len(v.Fn.FreeVars) && !freeVarAssigned(v.Fn, v.Fn.FreeVars[i], 0) {
				if cur, ok := st.load(bp); ok {
					fx.havocReachable(st, cur)
				}
				continue
			}
			fx.havocReachable(st, b)
		}
	}
}

func (fx *FuncExec) havocGlobals(st *State) {
	for g, id := range fx.globals {
		st.objs[id] = st.freshVal(g.Type().(*types.Pointer).Elem(), g.Name(), 0)
	}
}

// havocHeap: everything that is not a local variable cell of this activation.
func (fx *FuncExec) havocHeap(st *State) {
	st.bumpEpoch()
	local := map[ObjID]bool{}
	for v, r := range st.regs {
		if a, ok := v.(*ssa.Alloc); ok && (!a.Heap || !fx.capturedWritable(a)) {
			if p, ok := r.(PtrV); ok {
				local[p.Obj] = true
			}
		}
		// the cell of a captured variable that no closure of this function assigns keeps its value
		// (only closures of the enclosing function can write the variable itself)
		if fv, ok := v.(*ssa.FreeVar); ok && !freeVarAssigned(fx.fn, fv, 0) {
			if p, ok := r.(PtrV); ok && p.Obj != 0 {
				local[p.Obj] = true
			}
		}
	}
	var ids []int
	for id := range st.objs {
		ids = append(ids, int(id))
	}
	sort.Ints(ids)
	for _, i := range ids {
		id := ObjID(i)
		if local[id] {
			continue
		}
		cur := st.objs[id]
		if seq, ok := cur.(SeqV); ok {
			st.objs[id] = SeqV{Tree: fx.pk.seqTreeOf(fx.c, elemTypeOfSeq(seq), "havoc[]", false), N: seq.N, Typ: seq.Typ}
			continue
		}
		if cur.Type() != nil {
			st.objs[id] = st.freshVal(cur.Type(), "havoc", 0)
		}
	}
}

func elemTypeOfSeq(s SeqV) types.Type {
	if at, ok := s.Typ.Underlying().(*types.Array); ok {
		return at.Elem()
	}
	return s.Typ
}

// havocLoop: fresh values for everything the loop may assign.
func (fx *FuncExec) havocLoop(ps *pathState, li *LoopInfo) {
	st := ps.st
	type target struct {
		p   PtrV
		arr ObjID
	}
	var targets []target
	heapAll := false
	var heapWhy []string
	// locals assigned in the loop
	assigned := map[*ssa.Alloc]bool{}
	var blocks []*ssa.BasicBlock
	for b := range li.blocks {
		blocks = append(blocks, b)
	}
	sort.Slice(blocks, func(i, j int) bool { return blocks[i].Index < blocks[j].Index })
	definedInLoop := func(v ssa.Value) bool {
		if in, ok := v.(ssa.Instruction); ok {
			return li.blocks[in.Block()]
		}
		return false
	}
	for _, b := range blocks {
		for _, in := range b.Instrs {
			if s, ok := in.(*ssa.Store); ok {
				if a, ok := s.Addr.(*ssa.Alloc); ok && !definedInLoop(a) {
					assigned[a] = true
				}
			}
		}
	}
	// static resolution of an address expression to a location in the arriving state
	var rootLoc func(v ssa.Value, depth int) (PtrV, bool)
	var rootSlice func(v ssa.Value, depth int) (ObjID, bool)
	rootVal := func(v ssa.Value, depth int) (Val, bool) {
		// value of v as of the arriving state, if it does not change in the loop
		switch x := v.(type) {
		case *ssa.UnOp:
			if x.Op != token.MUL {
				return nil, false
			}
			if a, ok := x.X.(*ssa.Alloc); ok && assigned[a] {
				return nil, false
			}
			p, ok := rootLoc(x.X, depth+1)
			if !ok {
				return nil, false
			}
			return st.load(p)
		case *ssa.Parameter, *ssa.FreeVar, *ssa.Global:
			return fx.val(st, v), true
		default:
			if !definedInLoop(v) {
				if r, ok := st.regs[v]; ok {
					return r, true
				}
			}
		}
		return nil, false
	}
	rootLoc = func(v ssa.Value, depth int) (PtrV, bool) {
		if depth > 12 {
			return PtrV{}, false
		}
		switch x := v.(type) {
		case *ssa.Alloc:
			if definedInLoop(x) {
				return PtrV{}, false
			}
			p, ok := st.regs[x].(PtrV)
			return p, ok
		case *ssa.FieldAddr:
			var base PtrV
			if bp, ok := rootLoc(x.X, depth+1); ok && isAddrExpr(x.X) {
				base = bp
			} else if bv, ok := rootVal(x.X, depth+1); ok {
				if bp, ok := bv.(PtrV); ok && bp.Sym == "" && bp.Obj != 0 {
					base = bp
				} else if ok && isHeapPtr(bp) {
					base, _ = st.resolve(bp)
				} else {
					return PtrV{}, false
				}
			} else if _, isLoad := x.X.(*ssa.UnOp); isLoad {
				// pointer loaded from a per-iteration variable
				bp, ok := rootLoc(x.X, depth+1)
				if !ok {
					return PtrV{}, false
				}
				base = bp
			} else {
				return PtrV{}, false
			}
			return PtrV{Obj: base.Obj, Sym: base.Sym, Root: base.Root, Path: append(append([]Step(nil), base.Path...), Step{Field: x.Field})}, true
		case *ssa.IndexAddr:
			if id, ok := rootSlice(x.X, depth+1); ok {
				return PtrV{Obj: id}, true
			}
			// element of an array held in a variable or field: the whole array is the target
			if _, isArr := x.X.Type().Underlying().(*types.Pointer); isArr && isAddrExpr(x.X) {
				if bp, ok := rootLoc(x.X, depth+1); ok {
					return bp, true
				}
			}
			if bv, ok := rootVal(x.X, depth+1); ok {
				if bp, ok := bv.(PtrV); ok && bp.Sym == "" && bp.Obj != 0 {
					return PtrV{Obj: bp.Obj, Path: bp.Path}, true
				}
			}
			return PtrV{}, false
		case *ssa.Global, *ssa.FreeVar, *ssa.Parameter:
			p, ok := fx.val(st, v).(PtrV)
			if ok && isHeapPtr(p) {
				p, _ = st.resolve(p)
				return p, true
			}
			return p, ok && p.Sym == "" && p.Obj != 0
		case *ssa.UnOp:
			// pointer loaded from a variable
			if bv, ok := rootVal(x, depth+1); ok {
				if p, ok := bv.(PtrV); ok && p.Sym == "" && p.Obj != 0 {
					return p, true
				} else if ok && isHeapPtr(p) {
					p, _ = st.resolve(p)
					return p, true
				}
			}
			// pointer held in a per-iteration variable (e := &xs[i]): follow its single assignment
			if a, ok := x.X.(*ssa.Alloc); ok && x.Op == token.MUL && definedInLoop(a) {
				var src ssa.Value
				n := 0
				for _, ref := range *a.Referrers() {
					if st, ok := ref.(*ssa.Store); ok && st.Addr == ssa.Value(a) {
						src = st.Val
						n++
					}
				}
				if n == 1 && src != nil {
					return rootLoc(src, depth+1)
				}
			}
		}
		return PtrV{}, false
	}
	rootSlice = func(v ssa.Value, depth int) (ObjID, bool) {
		if depth > 12 {
			return 0, false
		}
		switch x := v.(type) {
		case *ssa.Slice:
			if _, isPtr := x.X.Type().Underlying().(*types.Pointer); isPtr {
				if p, ok := rootLoc(x.X, depth+1); ok {
					return p.Obj, true
				}
				return 0, false
			}
			return rootSlice(x.X, depth+1)
		case *ssa.Call:
			// the result of append shares its first operand's array or is a fresh one
			if bi, ok := x.Common().Value.(*ssa.Builtin); ok && bi.Name() == "append" {
				return rootSlice(x.Common().Args[0], depth+1)
			}
		case *ssa.Const:
			if x.Value == nil {
				return 0, true
			}
		case *ssa.UnOp:
			if x.Op == token.MUL {
				// slice value loaded from a location; if the location is reassigned in the loop the
				// havoc of the location replaces the array anyway, but the array it holds now may be written too
				if p, ok := rootLoc(x.X, depth+1); ok {
					if cur, ok := st.load(p); ok {
						if sl, ok := cur.(SliceV); ok {
							return sl.Arr, true
						}
					}
				}
			}
		default:
			if bv, ok := rootVal(v, depth+1); ok {
				if sl, ok := bv.(SliceV); ok {
					return sl.Arr, true
				}
			}
		}
		return 0, false
	}
	addPtrArg := func(v ssa.Value) {
		switch v.Type().Underlying().(type) {
		case *types.Pointer:
			if p, ok := rootLoc(v, 0); ok {
				targets = append(targets, target{p: p})
			} else if bv, ok := rootVal(v, 0); ok {
				if p, ok := bv.(PtrV); ok && p.Sym == "" && p.Obj != 0 {
					targets = append(targets, target{p: p})
				} else {
					heapAll = true
					heapWhy = append(heapWhy, "1")
				}
			} else {
				heapAll = true
					heapWhy = append(heapWhy, "2")
			}
		case *types.Slice:
			if id, ok := rootSlice(v, 0); ok {
				targets = append(targets, target{arr: id})
			} else {
				heapAll = true
					heapWhy = append(heapWhy, "3")
			}
		case *types.Interface, *types.Signature, *types.Map:
			heapAll = true
					heapWhy = append(heapWhy, "4")
		}
	}
	// a store through a pointer that changes in the loop into a field of a struct: the field's heap
	// array (all objects) and the same field of every escaped local object of that type
	type heapField struct {
		name   string
		typ    types.Type
		root   types.Type
		fields []int
	}
	var heapFields []heapField
	addHeapField := func(addr ssa.Value) bool {
		var fields []int
		cur := addr
		for {
			fa, ok := cur.(*ssa.FieldAddr)
			if !ok {
				break
			}
			fields = append([]int{fa.Field}, fields...)
			cur = fa.X
		}
		if len(fields) == 0 {
			return false
		}
		pt, ok := cur.Type().Underlying().(*types.Pointer)
		if !ok {
			return false
		}
		t := pt.Elem()
		name := typeKey(t)
		for _, f := range fields {
			stt, ok := t.Underlying().(*types.Struct)
			if !ok || f >= stt.NumFields() {
				return false
			}
			name += "_" + stt.Field(f).Name()
			t = stt.Field(f).Type()
		}
		heapFields = append(heapFields, heapField{name, t, pt.Elem(), fields})
		return true
	}
	for _, b := range blocks {
		for _, in := range b.Instrs {
			switch x := in.(type) {
			case *ssa.Store:
				if a, ok := x.Addr.(*ssa.Alloc); ok {
					if !definedInLoop(a) {
						if p, ok := st.regs[a].(PtrV); ok {
							targets = append(targets, target{p: p})
						}
					}
					continue
				}
				if p, ok := rootLoc(x.Addr, 0); ok {
					targets = append(targets, target{p: p})
				} else if !storesToLoopLocal(x.Addr, li) {
					if !addHeapField(x.Addr) {
						heapAll = true
						heapWhy = append(heapWhy, "5")
					}
				}
			case *ssa.MapUpdate:
				if u, ok := x.Map.(*ssa.UnOp); ok && u.Op == token.MUL {
					if p, ok := rootLoc(u.X, 0); ok {
						targets = append(targets, target{p: p})
						continue
					}
					if storesToLoopLocal(u.X, li) || addHeapField(u.X) {
						continue
					}
				}
				heapAll = true
					heapWhy = append(heapWhy, "6")
			case *ssa.Call:
				cc := x.Common()
				if bi, ok := cc.Value.(*ssa.Builtin); ok {
					switch bi.Name() {
					case "copy":
						if id, ok := rootSlice(cc.Args[0], 0); ok {
							targets = append(targets, target{arr: id})
						} else {
							heapAll = true
					heapWhy = append(heapWhy, "7")
						}
					case "append":
						if fx.con != nil && fx.con.AppendInPlace {
							if id, ok := rootSlice(cc.Args[0], 0); ok {
								if id != 0 {
									targets = append(targets, target{arr: id})
								}
							} else {
								heapAll = true
								heapWhy = append(heapWhy, "append-in-place")
							}
						}
					case "delete", "clear":
						if u, ok := cc.Args[0].(*ssa.UnOp); ok && u.Op == token.MUL {
							if p, ok := rootLoc(u.X, 0); ok {
								targets = append(targets, target{p: p})
								continue
							}
							if storesToLoopLocal(u.X, li) || addHeapField(u.X) {
								continue
							}
						}
						heapAll = true
					heapWhy = append(heapWhy, "8")
					}
					continue
				}
				var callee *ssa.Function
				switch f := cc.Value.(type) {
				case *ssa.Function:
					callee = f
				case *ssa.MakeClosure:
					callee = f.Fn.(*ssa.Function)
					for _, bnd := range f.Bindings {
						addPtrArg(bnd)
					}
				case *ssa.UnOp:
					callee = fx.staticCallee(cc)
				}
				if callee != nil && callee.Name() == "ssa:deferstack" {
					continue
				}
				var con *FuncContract
				if callee != nil {
					_, con = fx.pk.contractFor(callee)
				}
				if con != nil && len(con.Modifies) == 0 {
					continue // pure by contract
				}
				if con != nil && callee == fx.fn {
					// recursive call: its frame is this function's own modifies clause
					env := &SpecEnv{st: st, old: st, vars: map[string]Val{}, fx: fx}
					for _, fv := range fx.fn.FreeVars {
						if v, ok := fx.freeVarValue(fv.Name(), st); ok {
							env.vars[fv.Name()] = v
						}
					}
					allOK := true
					for _, cl := range con.Modifies {
						if p, _, ok := env.lvalue(cl.Expr); ok && p.Obj != 0 {
							targets = append(targets, target{p: p})
						} else {
							allOK = false
						}
					}
					if allOK {
						continue
					}
				}
				if con != nil && callee != fx.fn && !cc.IsInvoke() {
					// a callee under contract: its frame, expressed over the arguments at this call
					names := paramNames(callee, con)
					cvars := map[string]Val{}
					varying := map[string]ssa.Value{}
					for i, a := range cc.Args {
						if i >= len(names) {
							break
						}
						if v, ok := rootVal(a, 0); ok {
							cvars[names[i]] = v
						} else if c, ok := a.(*ssa.Const); ok {
							cvars[names[i]] = fx.val(st, c)
						} else {
							varying[names[i]] = a
						}
					}
					allOK := true
					for _, cl := range con.Modifies {
						if nm, ft, rt, idxs, ok := fx.pk.everyFieldFull(cl.Expr); ok {
							heapFields = append(heapFields, heapField{nm, ft, rt, idxs})
							continue
						}
						root, chain := selectorChain(cl.Expr)
						if root == "" {
							allOK = false
							break
						}
						if arg, isVar := varying[root]; isVar {
							// the argument changes in the loop: the named field of every object of its type
							pt, ok := arg.Type().Underlying().(*types.Pointer)
							if !ok || len(chain) == 0 {
								allOK = false
								break
							}
							t := pt.Elem()
							name := typeKey(t)
							var idxs []int
							good := true
							for _, f := range chain {
								fp, ok := fieldPath(t, f)
								if !ok {
									good = false
									break
								}
								for _, i := range fp {
									stt := t.Underlying().(*types.Struct)
									name += "_" + stt.Field(i).Name()
									t = stt.Field(i).Type()
									idxs = append(idxs, i)
								}
							}
							if !good {
								allOK = false
								break
							}
							heapFields = append(heapFields, heapField{name, t, pt.Elem(), idxs})
							continue
						}
						env := &SpecEnv{st: st, old: st, vars: cvars, fx: nil, lvFx: fx}
						p, v, ok := env.lvalue(cl.Expr)
						if !ok || (p.Obj == 0 && !isHeapPtr(p)) {
							allOK = false
							break
						}
						targets = append(targets, target{p: p})
						if sl, ok := v.(SliceV); ok && sl.Arr != 0 {
							targets = append(targets, target{arr: sl.Arr})
						}
					}
					if allOK {
						continue
					}
				}
				// with or without contract: whatever is reachable from pointer-like arguments
				if cc.IsInvoke() {
					heapAll = true
					heapWhy = append(heapWhy, "9")
				}
				if callee == nil && !cc.IsInvoke() {
					heapAll = true
					heapWhy = append(heapWhy, "10")
				}
				for _, a := range cc.Args {
					addPtrArg(a)
				}
			}
		}
	}
	for _, b := range blocks {
		for _, in := range b.Instrs {
			if _, ok := in.(*ssa.Call); ok {
				name := calleeNameOnly(fx.callOrd[in])
				if lg, ok := st.logs[name]; ok && fx.pk.logged[name] {
					nl := callLog{Types: lg.Types}
					for j, a := range lg.Arrs {
						nl.Arrs = append(nl.Arrs, fx.c.fresh(fmt.Sprintf("log.%s.%d", name, j), a.Sort))
					}
					nl.Cnt = fx.c.fresh("log."+name+".n", SInt)
					st.assume(tLe(intLit(0), nl.Cnt))
					st.logs[name] = nl
				}
			}
		}
	}
	for _, in := range li.header.Instrs {
		if n, ok := in.(*ssa.Next); ok && !n.IsString {
			if rg, ok := n.Iter.(*ssa.Range); ok {
				if mt, ok := rg.X.Type().Underlying().(*types.Map); ok {
					if st.iterVisited == nil {
						st.iterVisited = map[*ssa.Range]Term{}
					}
					st.iterVisited[rg] = fx.c.fresh("visited", "(Array "+st.keySort(mt.Key())+" Bool)")
				}
			}
		}
	}
	if heapAll {
		if os.Getenv("GVC_DEBUG") != "" {
			fmt.Fprintf(os.Stderr, "havocLoop %s loop#%d: heapAll because %v\n", fx.key, li.ord, heapWhy)
		}
		fx.havocHeap(st)
	}
	for _, hf := range heapFields {
		st.heapRead(hf.typ, Term{"ref_nil", SRef}, hf.name) // declares the arrays of this field
		var names []string
		for n := range fx.c.heapSorts {
			if n == hf.name || strings.HasPrefix(n, hf.name+"_") {
				names = append(names, n)
			}
		}
		sort.Strings(names)
		for _, n := range names {
			st.hfresh(n)
		}
		// escaped local objects of the same type may be the target as well
		var keys []string
		for k := range st.refVals {
			keys = append(keys, k)
		}
		sort.Strings(keys)
		for _, k := range keys {
			if pv, ok := st.refVals[k].(PtrV); ok && pv.Sym == "" && pv.Obj != 0 && hf.root != nil {
				if pt, ok := pv.Typ.Underlying().(*types.Pointer); ok && types.Identical(pt.Elem(), hf.root) {
					path := append([]Step(nil), pv.Path...)
					for _, f := range hf.fields {
						path = append(path, Step{Field: f})
					}
					targets = append(targets, target{p: PtrV{Obj: pv.Obj, Path: path}})
				}
			}
		}
	}
	for _, t := range targets {
		if t.arr != 0 {
			if seq, ok := st.objs[t.arr].(SeqV); ok {
				st.objs[t.arr] = SeqV{Tree: fx.pk.seqTreeOf(fx.c, elemTypeOfSeq(seq), "loop[]", false), N: seq.N, Typ: seq.Typ}
			}
			continue
		}
		cur, ok := st.load(t.p)
		if !ok {
			// the path does not resolve (e.g. a field of an element of an array object):
			// havoc the whole object rather than nothing
			whole := PtrV{Obj: t.p.Obj}
			if wc, ok2 := st.load(whole); ok2 {
				if seq, ok3 := wc.(SeqV); ok3 {
					st.store(whole, SeqV{Tree: fx.pk.seqTreeOf(fx.c, elemTypeOfSeq(seq), "loop[]", false), N: seq.N, Typ: seq.Typ})
				} else if wc.Type() != nil {
					st.store(whole, st.freshVal(wc.Type(), "loop", 0))
				}
			} else {
				fx.havocHeap(st)
			}
			continue
		}
		if seq, ok := cur.(SeqV); ok {
			nv := SeqV{Tree: fx.pk.seqTreeOf(fx.c, elemTypeOfSeq(seq), "loop[]", false), N: seq.N, Typ: seq.Typ}
			st.store(t.p, nv)
			continue
		}
		if cur.Type() == nil {
			continue
		}
		hint := "loop"
		nv := st.freshVal(cur.Type(), hint, 0)
		// a slice variable that the loop only re-slices (s = s[a:b]) keeps its backing array: only the
		// window moves, and the end of its capacity stays where it was
		if sl, ok := cur.(SliceV); ok && sl.Arr != 0 && len(t.p.Path) == 0 {
			if a := fx.allocOf(st, t.p); a != nil && onlyResliced(a, li) {
				off := fx.c.fresh("loop.off", SInt)
				ln := fx.c.fresh("loop.len", SInt)
				cp := fx.c.fresh("loop.cap", SInt)
				st.assume(tAnd(tLe(intLit(0), off), tLe(intLit(0), ln), tLe(ln, cp), tEq(tAdd(off, cp), tAdd(sl.Off, sl.Cap))))
				nv = SliceV{Arr: sl.Arr, Off: off, Len: ln, Cap: cp, Nil: tFalse, Typ: sl.Typ}
			}
		}
		st.store(t.p, nv)
	}
}

// allocOf: the local variable whose cell p points to.
func (fx *FuncExec) allocOf(st *State, p PtrV) *ssa.Alloc {
	for v, r := range st.regs {
		if a, ok := v.(*ssa.Alloc); ok {
			if rp, ok := r.(PtrV); ok && rp.Sym == "" && rp.Obj == p.Obj && len(rp.Path) == 0 {
				return a
			}
		}
	}
	return nil
}

// onlyResliced: every assignment to the variable inside the loop stores a slice expression over the
// variable's own current value.
func onlyResliced(a *ssa.Alloc, li *LoopInfo) bool {
	n := 0
	for _, ref := range *a.Referrers() {
		st, ok := ref.(*ssa.Store)
		if !ok || st.Addr != ssa.Value(a) || !li.blocks[st.Block()] {
			continue
		}
		n++
		sl, ok := st.Val.(*ssa.Slice)
		if !ok {
			return false
		}
		ld, ok := sl.X.(*ssa.UnOp)
		if !ok || ld.Op != token.MUL || ld.X != ssa.Value(a) {
			return false
		}
	}
	return n > 0
}

func isAddrExpr(v ssa.Value) bool {
	switch v.(type) {
	case *ssa.Alloc, *ssa.FieldAddr, *ssa.IndexAddr, *ssa.Global:
		return true
	}
	return false
}

// storesToLoopLocal: the address is rooted in an Alloc created inside the loop
// (a per-iteration variable); nothing that exists at the header is written.
func storesToLoopLocal(v ssa.Value, li *LoopInfo) bool {
	for i := 0; i < 12; i++ {
		switch x := v.(type) {
		case *ssa.Alloc:
			return li.blocks[x.Block()]
		case *ssa.FieldAddr:
			v = x.X
		case *ssa.IndexAddr:
			if _, isPtr := x.X.Type().Underlying().(*types.Pointer); isPtr {
				v = x.X
			} else {
				return false
			}
		default:
			return false
		}
	}
	return false
}

// ---------------------------------------------------------------------------
// Builtins
// ---------------------------------------------------------------------------

func (fx *FuncExec) builtin(ps *pathState, x *ssa.Call, b *ssa.Builtin) {
	st := ps.st
	c := fx.c
	args := x.Common().Args
	intT := types.Typ[types.Int]
	switch b.Name() {
	case "len", "cap":
		v := fx.val(st, args[0])
		switch a := v.(type) {
		case SliceV:
			if b.Name() == "cap" {
				st.regs[x] = Scalar{a.Cap, intT}
			} else {
				st.regs[x] = Scalar{a.Len, intT}
			}
		case SeqV:
			st.regs[x] = Scalar{a.N, intT}
		case MapV:
			st.regs[x] = Scalar{a.Len, intT}
		case Scalar:
			if a.T.Sort == SStr {
				st.regs[x] = Scalar{app(SInt, "strlen", a.T), intT}
				return
			}
			st.regs[x] = st.freshVal(intT, "len", 0)
		case PtrV:
			if at, ok := args[0].Type().Underlying().(*types.Pointer); ok {
				if arr, ok := at.Elem().Underlying().(*types.Array); ok {
					st.regs[x] = Scalar{intLit(arr.Len()), intT}
					return
				}
			}
			st.regs[x] = st.freshVal(intT, "len", 0)
		default:
			r := st.freshVal(intT, "len", 0).(Scalar)
			st.assume(tLe(intLit(0), r.T))
			st.regs[x] = r
		}
	case "append":
		fx.appendBuiltin(ps, x)
	case "copy":
		fx.copyBuiltin(ps, x)
	case "min", "max":
		cur := fx.val(st, args[0])
		for _, a := range args[1:] {
			o := fx.val(st, a)
			lt, ok := st.binop(token.LSS, cur, o, false).(Scalar)
			if !ok {
				cur = st.freshVal(x.Type(), "minmax", 0)
				break
			}
			p, q, ok2 := st.coerce(cur, o)
			if !ok2 {
				cur = st.freshVal(x.Type(), "minmax", 0)
				break
			}
			if b.Name() == "min" {
				cur = Scalar{tIte(lt.T, p.T, q.T), x.Type()}
			} else {
				cur = Scalar{tIte(lt.T, q.T, p.T), x.Type()}
			}
		}
		st.regs[x] = cur
	case "delete":
		mv := fx.val(st, args[0])
		if m, ok := mv.(MapV); ok {
			mt := m.Typ.Underlying().(*types.Map)
			k := st.toLeaf(fx.adapt(st, fx.val(st, args[1]), mt.Key()), st.keySort(mt.Key()))
			nm := m
			was := app(SBool, "select", m.Dom, k)
			nm.Dom = app(m.Dom.Sort, "store", m.Dom, k, tFalse)
			nm.Len = tIte(was, tSub(m.Len, intLit(1)), m.Len)
			fx.writeBackMap(ps, args[0], m, nm)
		}
	case "panic":
		fx.addObl(fmt.Sprintf("safe:panic-call#%d", fx.siteOrd[x]), "safe", fx.propDefault(), "explicit panic is unreachable", fx.posStr(x.Pos()), false, st, tFalse, ps.trail)
	case "ssa:deferstack":
		st.regs[x] = Scalar{Term{"ref_nil", SRef}, x.Type()}
	case "print", "println", "recover", "clear", "close":
		if b.Name() == "recover" || b.Name() == "close" {
			c.unsup("builtin %s", b.Name())
		}
		if x.Type() != nil {
			st.regs[x] = st.freshVal(x.Type(), x.Name(), 0)
		}
	default:
		c.unsup("builtin %s", b.Name())
		st.regs[x] = st.freshVal(x.Type(), x.Name(), 0)
	}
}

// seqCopyFacts: assume new[dstOff+k] = src[srcOff+k] for 0 <= k < n, per leaf.
func (fx *FuncExec) seqCopyFacts(st *State, nw, src SeqTree, dstOff, srcOff, n Term) {
	zipTree(nw, src, func(a, b Term) {
		if a.Sort != b.Sort {
			return
		}
		b = fx.nameArray(st, b)
		if lit, ok := litValue(n); ok && lit.IsInt64() && lit.Int64() <= 8 {
			for k := int64(0); k < lit.Int64(); k++ {
				st.assume(tEq(tSelect(a, tAdd(dstOff, intLit(k))), tSelect(b, tAdd(srcOff, intLit(k)))))
			}
			return
		}
		k := fx.c.boundName("k")
		kt := Term{k, SInt}
		// index form: quantify over the destination index so that (select new j) is the trigger
		body := tImplies(tAnd(tLe(dstOff, kt), tLt(kt, tAdd(dstOff, n))), tEq(tSelect(a, kt), tSelect(b, tAdd(srcOff, tSub(kt, dstOff)))))
		st.assume(Term{fmt.Sprintf("(forall ((%s Int)) (! %s :pattern (%s)))", k, body.S, tSelect(a, kt).S), SBool})
		// source-index form of the same fact, triggered by reads of the source
		j := fx.c.boundName("j")
		jt := Term{j, SInt}
		body2 := tImplies(tAnd(tLe(srcOff, jt), tLt(jt, tAdd(srcOff, n))), tEq(tSelect(a, tAdd(dstOff, tSub(jt, srcOff))), tSelect(b, jt)))
		st.assume(Term{fmt.Sprintf("(forall ((%s Int)) (! %s :pattern (%s)))", j, body2.S, tSelect(b, jt).S), SBool})
	})
}

func (fx *FuncExec) seqKeepFacts(st *State, nw, old SeqTree, lo, hi Term) {
	// elements outside [lo,hi) unchanged
	zipTree(nw, old, func(a, b Term) {
		b = fx.nameArray(st, b)
		k := fx.c.boundName("k")
		kt := Term{k, SInt}
		body := tImplies(tOr(tLt(kt, lo), tLe(hi, kt)), tEq(tSelect(a, kt), tSelect(b, kt)))
		st.assume(Term{fmt.Sprintf("(forall ((%s Int)) (! %s :pattern (%s)))", k, body.S, tSelect(a, kt).S), SBool})
	})
}

func (fx *FuncExec) appendBuiltin(ps *pathState, x *ssa.Call) {
	st := ps.st
	c := fx.c
	args := x.Common().Args
	sv, ok1 := fx.val(st, args[0]).(SliceV)
	tvv := fx.val(st, args[1])
	tv, ok2 := tvv.(SliceV)
	if !ok1 {
		sv = st.zeroVal(x.Type()).(SliceV)
	}
	et := x.Type().Underlying().(*types.Slice).Elem()
	if !ok2 {
		// append([]byte, string...) and similar
		if sc, ok := tvv.(Scalar); ok && sc.T.Sort == SStr {
			id := c.newObj()
			st.objs[id] = SeqV{Tree: fx.pk.seqTreeOf(c, et, "strbytes", false), Typ: et}
			ln := app(SInt, "strlen", sc.T)
			tv = SliceV{Arr: id, Off: intLit(0), Len: ln, Cap: ln, Nil: tFalse, Typ: x.Type()}
		} else {
			st.regs[x] = st.freshVal(x.Type(), x.Name(), 0)
			return
		}
	}
	nl0 := tAdd(sv.Len, tv.Len)
	if fx.con != nil && fx.con.AppendInPlace && sv.Arr != 0 {
		// the other outcome of append: the operand has room, the new elements are written into its
		// backing array (visible through every slice that shares it)
		fits := tLe(nl0, sv.Cap)
		if dseq, ok := st.objs[sv.Arr].(SeqV); ok && fits.S != "false" {
			f := ps.fork()
			f.trail = append(f.trail, "append-in-place")
			f.st.assume(fits)
			nt := fx.pk.seqTreeOf(c, elemTypeOfSeq(dseq), "appip", false)
			lo := tAdd(sv.Off, sv.Len)
			if tv.Arr != 0 {
				if sseq, ok := f.st.objs[tv.Arr].(SeqV); ok {
					fx.seqCopyFacts(f.st, nt, sseq.Tree, lo, tv.Off, tv.Len)
				}
			}
			fx.seqKeepFacts(f.st, nt, dseq.Tree, lo, tAdd(lo, tv.Len))
			f.st.objs[sv.Arr] = SeqV{Tree: nt, N: dseq.N, Typ: dseq.Typ}
			f.st.regs[x] = SliceV{Arr: sv.Arr, Off: sv.Off, Len: nl0, Cap: sv.Cap, Nil: tFalse, Typ: x.Type()}
			ps.midFork = f
			st.assume(tNot(fits))
		}
	}
	id := c.newObj()
	nt := fx.pk.seqTreeOf(c, et, "app", false)
	st.objs[id] = SeqV{Tree: nt, Typ: et}
	if sv.Arr != 0 {
		if seq, ok := st.objs[sv.Arr].(SeqV); ok {
			fx.seqCopyFacts(st, nt, seq.Tree, intLit(0), sv.Off, sv.Len)
		}
	}
	if tv.Arr != 0 {
		if seq, ok := st.objs[tv.Arr].(SeqV); ok {
			fx.seqCopyFacts(st, nt, seq.Tree, sv.Len, tv.Off, tv.Len)
		}
	}
	nl := tAdd(sv.Len, tv.Len)
	cp := c.fresh("cap", SInt)
	st.assume(tAnd(tLe(nl, cp), tLe(cp, bigLit(pow2(maxLenBits)))))
	st.regs[x] = SliceV{Arr: id, Off: intLit(0), Len: nl, Cap: cp, Nil: tAnd(sv.Nil, tEq(tv.Len, intLit(0))), Typ: x.Type()}
}

func (fx *FuncExec) copyBuiltin(ps *pathState, x *ssa.Call) {
	st := ps.st
	c := fx.c
	args := x.Common().Args
	dv, ok1 := fx.val(st, args[0]).(SliceV)
	sv, ok2 := fx.val(st, args[1]).(SliceV)
	intT := types.Typ[types.Int]
	if !ok1 {
		st.regs[x] = st.freshVal(intT, "copy", 0)
		return
	}
	var n Term
	if ok2 {
		n = tIte(tLt(dv.Len, sv.Len), dv.Len, sv.Len)
	} else if sc, ok := fx.val(st, args[1]).(Scalar); ok && sc.T.Sort == SStr {
		ln := app(SInt, "strlen", sc.T)
		n = tIte(tLt(dv.Len, ln), dv.Len, ln)
	} else {
		n = c.fresh("copyn", SInt)
		st.assume(tAnd(tLe(intLit(0), n), tLe(n, dv.Len)))
	}
	st.regs[x] = Scalar{n, intT}
	if dv.Arr == 0 {
		return
	}
	dseq, ok := st.objs[dv.Arr].(SeqV)
	if !ok {
		return
	}
	nt := fx.pk.seqTreeOf(c, elemTypeOfSeq(dseq), "copy", false)
	if ok2 && sv.Arr != 0 {
		if sseq, ok := st.objs[sv.Arr].(SeqV); ok {
			fx.seqCopyFacts(st, nt, sseq.Tree, dv.Off, sv.Off, n)
		}
	}
	fx.seqKeepFacts(st, nt, dseq.Tree, dv.Off, tAdd(dv.Off, n))
	st.objs[dv.Arr] = SeqV{Tree: nt, N: dseq.N, Typ: dseq.Typ}
}

// nameArray: patterns may not contain ite (wrap-around arithmetic inside store
// indices); give a compound array term a name.
func (fx *FuncExec) nameArray(st *State, a Term) Term {
	if !strings.HasPrefix(a.S, "(") {
		return a
	}
	n := fx.c.fresh("arr", a.Sort)
	st.assume(tEq(n, a))
	return n
}

func calleeNameOnly(site string) string {
	if i := strings.LastIndex(site, "#"); i >= 0 {
		return site[:i]
	}
	return site
}

// logCall appends the scalar components of a call result to the ghost log of the callee.
func (fx *FuncExec) logCall(st *State, callee string, result Val) {
	if !fx.pk.logged[callee] {
		return
	}
	var comps []Val
	if tv, ok := result.(TupleV); ok {
		comps = tv.E
	} else if result != nil {
		comps = []Val{result}
	}
	lg, ok := st.logs[callee]
	if !ok {
		lg = fx.freshLog(st, callee, comps, true)
	}
	var arrs []Term
	for j, cv := range comps {
		if j >= len(lg.Arrs) {
			break
		}
		elem := lastSortArg(lg.Arrs[j].Sort)
		arrs = append(arrs, tStore(lg.Arrs[j], lg.Cnt, st.toLeaf(cv, elem)))
	}
	if st.logs == nil {
		st.logs = map[string]callLog{}
	}
	// physical bound: no execution performs 2^62 calls
	st.assume(tLt(lg.Cnt, bigLit(pow2(62))))
	st.logs[callee] = callLog{Arrs: arrs, Types: lg.Types, Cnt: tAdd(lg.Cnt, intLit(1))}
}

func (fx *FuncExec) freshLog(st *State, callee string, comps []Val, empty bool) callLog {
	lg := callLog{Cnt: intLit(0)}
	for j, cv := range comps {
		srt := SRef
		var t types.Type
		switch v := cv.(type) {
		case Scalar:
			srt, t = v.T.Sort, v.Typ
		case IfaceV:
			t = v.Typ
		case PtrV:
			t = v.Typ
		}
		lg.Arrs = append(lg.Arrs, fx.c.fresh(fmt.Sprintf("log.%s.%d", callee, j), arrSort(srt)))
		lg.Types = append(lg.Types, t)
	}
	if !empty {
		lg.Cnt = fx.c.fresh("log."+callee+".n", SInt)
		st.assume(tLe(intLit(0), lg.Cnt))
	}
	return lg
}

// capturedWritable: can code outside this activation assign the variable? Only a closure that
// captures it and stores to it can (or an escaping address, which we treat as writable).
func (fx *FuncExec) capturedWritable(a *ssa.Alloc) bool {
	if fx.writable == nil {
		fx.writable = map[*ssa.Alloc]bool{}
	}
	if w, ok := fx.writable[a]; ok {
		return w
	}
	w := false
	for _, ref := range *a.Referrers() {
		switch r := ref.(type) {
		case *ssa.Store:
			if r.Val == ssa.Value(a) {
				w = true // address stored somewhere
			}
		case *ssa.UnOp, *ssa.DebugRef, *ssa.FieldAddr, *ssa.IndexAddr:
		case *ssa.MakeClosure:
			fn := r.Fn.(*ssa.Function)
			for i, b := range r.Bindings {
				if b == ssa.Value(a) && i < len(fn.FreeVars) && freeVarAssigned(fn, fn.FreeVars[i], 0) {
					w = true
				}
			}
		default:
			w = true // passed to a call, converted, ...
		}
	}
	fx.writable[a] = w
	return w
}

func freeVarAssigned(fn *ssa.Function, fv *ssa.FreeVar, depth int) bool {
	if depth > 4 {
		return true
	}
	for _, ref := range *fv.Referrers() {
		switch r := ref.(type) {
		case *ssa.Store:
			if r.Addr == ssa.Value(fv) || r.Val == ssa.Value(fv) {
				return true
			}
		case *ssa.UnOp, *ssa.DebugRef, *ssa.FieldAddr, *ssa.IndexAddr:
		case *ssa.MakeClosure:
			inner := r.Fn.(*ssa.Function)
			for i, b := range r.Bindings {
				if b == ssa.Value(fv) && i < len(inner.FreeVars) && freeVarAssigned(inner, inner.FreeVars[i], depth+1) {
					return true
				}
			}
		default:
			return true
		}
	}
	return false
}

func callHasRefArgs(args []Val) bool {
	for _, a := range args {
		switch v := a.(type) {
		case PtrV, IfaceV, MapV, FuncV:
			return true
		case SliceV:
			return true
		case StructV:
			if callHasRefArgs(v.F) {
				return true
			}
		}
	}
	return false
}

// everyField recognises the frame expression every(T, f.g): field f.g of every heap object of type T.
// It returns the heap array name prefix and the field's type.
func (pk *PkgCtx) everyField(x ast.Expr) (string, types.Type, bool) {
	n, t, _, _, ok := pk.everyFieldFull(x)
	return n, t, ok
}

func (pk *PkgCtx) everyFieldFull(x ast.Expr) (string, types.Type, types.Type, []int, bool) {
	ce, ok := x.(*ast.CallExpr)
	if !ok {
		return "", nil, nil, nil, false
	}
	id, ok := ce.Fun.(*ast.Ident)
	if !ok || id.Name != "every" || len(ce.Args) != 2 {
		return "", nil, nil, nil, false
	}
	t := pk.resolveType(ce.Args[0])
	if t == nil {
		return "", nil, nil, nil, false
	}
	root := t
	var idxs []int
	name := typeKey(t)
	var fields []string
	var walk func(e ast.Expr) bool
	walk = func(e ast.Expr) bool {
		switch y := e.(type) {
		case *ast.Ident:
			fields = append(fields, y.Name)
			return true
		case *ast.SelectorExpr:
			if !walk(y.X) {
				return false
			}
			fields = append(fields, y.Sel.Name)
			return true
		}
		return false
	}
	if !walk(ce.Args[1]) {
		return "", nil, nil, nil, false
	}
	for _, f := range fields {
		fp, ok := fieldPath(t, f)
		if !ok {
			return "", nil, nil, nil, false
		}
		for _, i := range fp {
			st := t.Underlying().(*types.Struct)
			name += "_" + st.Field(i).Name()
			t = st.Field(i).Type()
			idxs = append(idxs, i)
		}
	}
	return name, t, root, idxs, true
}

func (fx *FuncExec) havocHeapField(st *State, name string, ft types.Type) {
	st.heapRead(ft, Term{"ref_nil", SRef}, name) // declares the arrays of this field
	var names []string
	for n := range fx.c.heapSorts {
		if n == name || strings.HasPrefix(n, name+"_") {
			names = append(names, n)
		}
	}
	sort.Strings(names)
	for _, n := range names {
		st.hfresh(n)
	}
}

// selectorChain: x.f.g -> ("x", ["f","g"]); anything else -> "".
func selectorChain(e ast.Expr) (string, []string) {
	switch y := e.(type) {
	case *ast.Ident:
		return y.Name, nil
	case *ast.ParenExpr:
		return selectorChain(y.X)
	case *ast.SelectorExpr:
		r, ch := selectorChain(y.X)
		if r == "" {
			return "", nil
		}
		return r, append(ch, y.Sel.Name)
	}
	return "", nil
}

var pureSlicesFuncs = map[string]bool{"Clone": true, "Contains": true, "Index": true, "Equal": true}

var pureStdPkgs = map[string]bool{"log": true, "fmt": true, "errors": true, "strings": true, "strconv": true, "unicode": true, "unicode/utf8": true, "math": true, "math/bits": true, "path": true, "path/filepath": true}
