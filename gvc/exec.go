package main

import (
	"math/big"
	"fmt"
	"os"
	"runtime/debug"
	"go/token"
	"go/types"
	"sort"
	"strings"

	"golang.org/x/tools/go/ssa"
)

// ---------------------------------------------------------------------------
// Obligations
// ---------------------------------------------------------------------------

type Instance struct {
	Assumps []Term
	Goal    Term
	Decls   []string
	Path    string
	// filled by the solver stage
	Verdict string // unsat (discharged) | sat | unknown | timeout
	Solver  string
	Secs    float64
	Model   string
	Output  string
	File    string
	Replay  *ReplayInfo // what is needed to run the counterexample on the real code (post and safe obligations)
}

type Obligation struct {
	Name      string
	Func      string
	Kind      string
	Prop      string
	Text      string
	Where     string
	Cover     bool // vacuity probe: must be satisfiable
	PkgDir    string
	Instances []*Instance
}

// ---------------------------------------------------------------------------
// Per-function executor
// ---------------------------------------------------------------------------

type LoopInfo struct {
	ord    int
	header *ssa.BasicBlock
	blocks map[*ssa.BasicBlock]bool
	spec   *LoopSpec
}

type FuncExec struct {
	coverCalls    map[string]int // post-call feasibility probes issued per call site
	curBindings   []Val          // bindings of the closure being called (for its contract's captured names)
	pendingReplay *ReplayInfo
	pk         *PkgCtx
	fn         *ssa.Function
	key        string
	con        *FuncContract
	c          *VCtx
	entry      *State
	paramEntry map[string]Val
	allocs     map[string][]*ssa.Alloc
	loops      []*LoopInfo
	loopOf     map[*ssa.BasicBlock]*LoopInfo
	obls       map[string]*Obligation
	oblOrder   []string
	paths      int
	maxPaths   int
	aborted    string
	siteOrd    map[ssa.Instruction]int
	callOrd    map[ssa.Instruction]string // call instr -> "callee#k"
	globals    map[*ssa.Global]ObjID
	entryObjs  map[ObjID]bool
	resNames   []string
	preAxioms  bool
	selfVars   map[*ssa.FreeVar]bool
	cutDone    map[*LoopInfo]bool
	writable   map[*ssa.Alloc]bool
	pendingLogs []string
	regionBefore func(ssa.Instruction) bool
	specErrs   []string
	decEntry   []Term
}

type pathState struct {
	stopped  bool
	pred     *ssa.BasicBlock
	callRes  map[string]Val
	st       *State
	loopSnap map[int]*State
	variants map[*LoopInfo][]Term
	unrolls  map[*LoopInfo]int
	trail    []string
	midFork  *pathState // a path split off in the middle of a block (continues after the current instruction)
}

func (ps *pathState) fork() *pathState {
	n := &pathState{st: ps.st.clone(), variants: map[*LoopInfo][]Term{}, unrolls: map[*LoopInfo]int{}}
	for k, v := range ps.variants {
		n.variants[k] = v
	}
	for k, v := range ps.unrolls {
		n.unrolls[k] = v
	}
	n.callRes = map[string]Val{}
	for k, v := range ps.callRes {
		n.callRes[k] = v
	}
	n.loopSnap = map[int]*State{}
	for k, v := range ps.loopSnap {
		n.loopSnap[k] = v
	}
	n.trail = append([]string(nil), ps.trail...)
	return n
}

func newFuncExec(pk *PkgCtx, fn *ssa.Function, key string, con *FuncContract) *FuncExec {
	fx := &FuncExec{pk: pk, fn: fn, key: key, con: con, c: &VCtx{pkg: pk}, obls: map[string]*Obligation{}, maxPaths: 6000,
		allocs: map[string][]*ssa.Alloc{}, loopOf: map[*ssa.BasicBlock]*LoopInfo{}, paramEntry: map[string]Val{},
		siteOrd: map[ssa.Instruction]int{}, callOrd: map[ssa.Instruction]string{}, globals: map[*ssa.Global]ObjID{}, entryObjs: map[ObjID]bool{}}
	return fx
}

func (fx *FuncExec) prop(cl Clause) string {
	if cl.Prop != "" {
		return cl.Prop
	}
	if fx.con != nil {
		return fx.con.Prop
	}
	return ""
}

func (fx *FuncExec) addObl(name, kind, prop, text, where string, cover bool, st *State, goal Term, trail []string) {
	o := fx.obls[name]
	if o == nil {
		o = &Obligation{Name: fx.key + "/" + name, Func: fx.key, Kind: kind, Prop: prop, Text: text, Where: where, Cover: cover, PkgDir: fx.pk.dir}
		fx.obls[name] = o
		fx.oblOrder = append(fx.oblOrder, name)
	}
	if goal.S == "true" && !cover {
		// trivially discharged by construction; still counted
		o.Instances = append(o.Instances, &Instance{Goal: goal, Verdict: "unsat", Solver: "syntactic", Path: strings.Join(trail, ">")})
		return
	}
	goals := []Term{goal}
	if !cover {
		goals = splitGoal(goal, 6)
	}
	assumps := append([]Term(nil), st.pc...)
	for _, g := range goals {
		inst := &Instance{Assumps: assumps, Goal: g, Path: strings.Join(trail, ">"), Replay: fx.pendingReplay}
		inst.Decls = fx.c.decls[:len(fx.c.decls):len(fx.c.decls)]
		o.Instances = append(o.Instances, inst)
	}
}

// ---------------------------------------------------------------------------
// Analysis: loops, variables, ordinals
// ---------------------------------------------------------------------------

func (fx *FuncExec) analyse() {
	fn := fx.fn
	// loops: back edges b->h with h dominating b
	headers := map[*ssa.BasicBlock][]*ssa.BasicBlock{}
	for _, b := range fn.Blocks {
		for _, s := range b.Succs {
			if s.Dominates(b) {
				headers[s] = append(headers[s], b)
			}
		}
	}
	var hs []*ssa.BasicBlock
	for h := range headers {
		hs = append(hs, h)
	}
	sort.Slice(hs, func(i, j int) bool { return hs[i].Index < hs[j].Index })
	for i, h := range hs {
		li := &LoopInfo{ord: i + 1, header: h, blocks: map[*ssa.BasicBlock]bool{h: true}}
		var work []*ssa.BasicBlock
		for _, b := range headers[h] {
			if !li.blocks[b] {
				li.blocks[b] = true
				work = append(work, b)
			}
		}
		for len(work) > 0 {
			b := work[len(work)-1]
			work = work[:len(work)-1]
			for _, p := range b.Preds {
				if !li.blocks[p] {
					li.blocks[p] = true
					work = append(work, p)
				}
			}
		}
		if fx.con != nil {
			li.spec = fx.con.Loops[li.ord]
		}
		fx.loops = append(fx.loops, li)
		fx.loopOf[h] = li
	}
	// allocs by name; site ordinals
	kindCount := map[string]int{}
	calleeCount := map[string]int{}
	for _, b := range fn.Blocks {
		for _, in := range b.Instrs {
			if a, ok := in.(*ssa.Alloc); ok && a.Comment != "" {
				fx.allocs[a.Comment] = append(fx.allocs[a.Comment], a)
			}
			k := ""
			switch x := in.(type) {
			case *ssa.IndexAddr, *ssa.Index:
				k = "index"
			case *ssa.Slice:
				k = "slice"
			case *ssa.BinOp:
				if x.Op == token.QUO || x.Op == token.REM {
					k = "div"
				} else if x.Op == token.SHL || x.Op == token.SHR {
					k = "shift"
				}
			case *ssa.Panic:
				k = "panic"
			case *ssa.Return:
				k = "return"
			case *ssa.TypeAssert:
				k = "typeassert"
			case *ssa.FieldAddr, *ssa.UnOp, *ssa.Store:
				k = "nil"
			case *ssa.MakeSlice:
				k = "make"
			case *ssa.MapUpdate:
				k = "mapupdate"
			case *ssa.Call:
				k = "call"
				name := calleeName(x.Common(), fx.fn)
				if _, ok := x.Common().Value.(*ssa.UnOp); ok {
					if sc := fx.staticCallee(x.Common()); sc != nil && sc.Pkg == fx.fn.Pkg {
						name = sc.RelString(fx.fn.Pkg.Pkg)
					}
				}
				calleeCount[name]++
				fx.callOrd[in] = fmt.Sprintf("%s#%d", name, calleeCount[name])
			case *ssa.SliceToArrayPointer:
				k = "conv"
			}
			if k != "" {
				kindCount[k]++
				fx.siteOrd[in] = kindCount[k]
			}
		}
	}
}

func calleeName(cc *ssa.CallCommon, from *ssa.Function) string {
	if cc.IsInvoke() {
		return "invoke." + cc.Method.Name()
	}
	switch f := cc.Value.(type) {
	case *ssa.Function:
		if f.Pkg != nil && from.Pkg != nil && f.Pkg == from.Pkg {
			return f.RelString(from.Pkg.Pkg)
		}
		return f.String()
	case *ssa.Builtin:
		return f.Name()
	case *ssa.MakeClosure:
		return f.Fn.(*ssa.Function).RelString(from.Pkg.Pkg)
	}
	return "dynamic"
}

// lookupVar resolves a source-level variable name to the current value of
// its cell. With several variables of the same name the one whose declaration
// is visible at pos wins.
func (fx *FuncExec) lookupVar(name string, pos token.Pos, st *State) (Val, bool) {
	as := fx.allocs[name]
	if len(as) == 0 {
		return nil, false
	}
	pick := func(a *ssa.Alloc) (Val, bool) {
		pv, ok := st.regs[a]
		if !ok && fx.regionBefore != nil && fx.regionBefore(a) {
			pv, ok = fx.val(st, a), true
		}
		if !ok {
			return nil, false
		}
		p, ok := pv.(PtrV)
		if !ok {
			return nil, false
		}
		return st.load(p)
	}
	if name == "rangeindex" && pos.IsValid() {
		// the hidden counter of the loop whose header is at pos: handled by caller through fx.rangeAlloc
	}
	if len(as) == 1 {
		return pick(as[0])
	}
	if pos.IsValid() && fx.fn.Pkg != nil {
		if sc := fx.fn.Pkg.Pkg.Scope().Innermost(pos); sc != nil {
			if _, obj := sc.LookupParent(name, pos); obj != nil {
				for _, a := range as {
					if a.Pos() == obj.Pos() {
						return pick(a)
					}
				}
			}
		}
	}
	// fall back: the last one already allocated on this path
	for i := len(as) - 1; i >= 0; i-- {
		if v, ok := pick(as[i]); ok {
			return v, true
		}
	}
	return nil, false
}

// ---------------------------------------------------------------------------
// Entry
// ---------------------------------------------------------------------------

func (fx *FuncExec) run() {
	defer func() {
		if r := recover(); r != nil {
			fx.aborted = fmt.Sprintf("internal error: %v", r)
			if os.Getenv("GVC_DEBUG") != "" {
				fmt.Fprintf(os.Stderr, "%s\n", debug.Stack())
			}
		}
	}()
	fn := fx.fn
	if len(fn.Blocks) == 0 {
		fx.aborted = "no body"
		return
	}
	fx.detectSelfBinding()
	fx.analyse()
	st := &State{c: fx.c, objs: map[ObjID]Val{}, regs: map[ssa.Value]Val{}}
	vars := map[string]Val{}
	for _, p := range fn.Params {
		deep := 1
		v := st.freshVal(p.Type(), p.Name(), deep)
		st.regs[p] = v
		fx.paramEntry[p.Name()] = v
		vars[p.Name()] = v
	}
	for _, fv := range fn.FreeVars {
		v := st.freshVal(fv.Type(), fv.Name(), 2)
		st.regs[fv] = v
		// a free variable is a pointer to the captured cell; expose the cell's value by name
		fx.paramEntry["&"+fv.Name()] = v
	}
	if fx.con != nil {
		// `heap x`: x is an unknown reference into the heap (it may alias objects stored in containers)
		for _, hn := range fx.con.HeapPtrs {
			found := false
			for _, p := range fn.Params {
				if p.Name() == hn {
					v := PtrV{Sym: fx.c.fresh(hn+".ref", SRef).S, Typ: p.Type()}
					st.regs[p] = v
					fx.paramEntry[hn] = v
					vars[hn] = v
					found = true
				}
			}
			for _, fv := range fn.FreeVars {
				if fv.Name() == hn {
					if cell, ok := st.regs[fv].(PtrV); ok {
						st.store(cell, PtrV{Sym: fx.c.fresh(hn+".ref", SRef).S, Typ: fv.Type().(*types.Pointer).Elem()})
						found = true
					}
				}
			}
			if !found {
				fx.specErrs = append(fx.specErrs, fmt.Sprintf("%s: heap %s: no such parameter or captured variable", fx.con.Line, hn))
			}
		}
	}
	for id := range st.objs {
		fx.entryObjs[id] = true
	}
	if fx.preAxioms {
		if fx.con != nil {
			fx.specErrs = append(fx.specErrs, fx.pk.axiomsInto(st, nil, fx.con.Uses)...)
		}
	}
	for _, fv := range fn.FreeVars {
		if v, ok := fx.freeVarValue(fv.Name(), st); ok {
			vars[fv.Name()] = v
		}
	}
	if fx.con != nil && fx.con.Start == "" {
		env := &SpecEnv{st: st, old: st, vars: vars, fx: fx}
		for i, cl := range fx.con.Requires {
			t := env.boolTerm(cl.Expr)
			fx.noteSpecErr(env, cl)
			st.assumeGlobal(t)
			_ = i
		}
		fx.addObl("cover:requires", "cover", fx.con.Prop, "preconditions are satisfiable", fx.con.Line, true, st, tTrue, nil)
		for _, cl := range fx.con.Decr {
			fx.decEntry = append(fx.decEntry, env.intTerm(cl.Expr))
			fx.noteSpecErr(env, cl)
		}
	}
	// ghost logs of logged callees start empty
	for _, b := range fn.Blocks {
		for _, in := range b.Instrs {
			if cl, ok := in.(*ssa.Call); ok {
				name := calleeNameOnly(fx.callOrd[in])
				if fx.pk.logged[name] {
					if _, have := st.logs[name]; !have {
						var comps []Val
						rv := st.freshVal(cl.Type(), "logshape", 0)
						if tv, ok := rv.(TupleV); ok {
							comps = tv.E
						} else {
							comps = []Val{rv}
						}
						if st.logs == nil {
							st.logs = map[string]callLog{}
						}
						st.logs[name] = fx.freshLog(st, name, comps, true)
					}
				}
			}
		}
	}
	fx.entry = st.snapshot()
	sig := fn.Signature
	for i := 0; i < sig.Results().Len(); i++ {
		n := sig.Results().At(i).Name()
		if fx.con != nil && i < len(fx.con.Results) {
			n = fx.con.Results[i]
		}
		fx.resNames = append(fx.resNames, n)
	}
	ps := &pathState{st: st, variants: map[*LoopInfo][]Term{}, unrolls: map[*LoopInfo]int{}}
	if fx.con != nil && fx.con.Start != "" {
		fx.runRegion(ps)
		return
	}
	fx.execBlock(ps, fn.Blocks[0], nil)
}

// runRegion: a region contract. Verification starts immediately before a call site with
// an arbitrary state: every SSA value and every local variable defined before that point
// is unconstrained (of its type), the heap is unconstrained. `requires` clauses are facts
// assumed at that point (listed as unverified assumptions of the region), old() refers to
// the state at that point.
func (fx *FuncExec) runRegion(ps *pathState) {
	st := ps.st
	var startIn ssa.Instruction
	for in, name := range fx.callOrd {
		if name == fx.con.Start {
			startIn = in
		}
	}
	if startIn == nil {
		fx.aborted = "drift: region start site " + fx.con.Start + " not found"
		return
	}
	sb := startIn.Block()
	// begin at the start of the source statement the call belongs to: the loads and address
	// computations that feed the call read the state at the region start, they are not "earlier values"
	{
		line := fx.fn.Prog.Fset.Position(startIn.Pos()).Line
		idx := -1
		for i, in := range sb.Instrs {
			if in == startIn {
				idx = i
			}
		}
		for idx > 0 {
			prev := sb.Instrs[idx-1]
			pure := false
			switch prev.(type) {
			case *ssa.UnOp, *ssa.FieldAddr, *ssa.IndexAddr, *ssa.Field, *ssa.Index, *ssa.BinOp, *ssa.Convert, *ssa.Slice, *ssa.DebugRef, *ssa.ChangeType:
				pure = true
			}
			if !pure {
				break
			}
			if pp := prev.Pos(); pp.IsValid() && fx.fn.Prog.Fset.Position(pp).Line != line {
				break
			}
			idx--
		}
		startIn = sb.Instrs[idx]
	}
	if fx.inAnyLoop(sb) {
		fx.aborted = "region start inside a loop is not supported"
		return
	}
	// every value defined in a block that dominates the start block, or earlier in the start block
	before := func(in ssa.Instruction) bool {
		b := in.Block()
		if b == sb {
			for _, x := range sb.Instrs {
				if x == startIn {
					return false
				}
				if x == in {
					return true
				}
			}
			return false
		}
		return b.Dominates(sb)
	}
	// values defined before the start are materialised lazily (see val): unconstrained, of their type
	fx.regionBefore = before
	// parameter cells hold the (structural) parameter values again
	for _, b := range fx.fn.Blocks {
		for _, in := range b.Instrs {
			if s, ok := in.(*ssa.Store); ok {
				if p, ok := s.Val.(*ssa.Parameter); ok {
					if a, ok := s.Addr.(*ssa.Alloc); ok && before(in) {
						if ptr, ok := fx.val(st, a).(PtrV); ok {
							st.store(ptr, st.regs[p])
						}
					}
				}
			}
		}
	}
	// requires: assumed at the region start
	vars := map[string]Val{}
	for k, v := range fx.paramEntry {
		vars[k] = v
	}
	env := fx.specEnv(ps, startIn.Pos(), vars)
	for _, cl := range fx.con.Requires {
		t := env.boolTerm(cl.Expr)
		fx.noteSpecErr(env, cl)
		st.assume(t)
		fx.c.unsup("region assumption (unverified, holds where the region starts): %s", cl.Text)
	}
	fx.addObl("cover:region", "cover", fx.con.Prop, "region assumptions are satisfiable", fx.con.Line, true, st, tTrue, nil)
	fx.entry = st.snapshot()
	for id := range st.objs {
		fx.entryObjs[id] = true
	}
	// execute the rest of the start block, then continue normally
	ps.trail = append(ps.trail, fmt.Sprintf("b%d@%s", sb.Index, fx.con.Start))
	started := false
	for _, in := range sb.Instrs {
		if in == startIn {
			started = true
		}
		if !started {
			continue
		}
		if fx.aborted != "" {
			return
		}
		if fx.execControl(ps, sb, in) {
			return
		}
	}
}

func (fx *FuncExec) inAnyLoop(b *ssa.BasicBlock) bool {
	for _, li := range fx.loops {
		if li.blocks[b] {
			return true
		}
	}
	return false
}

func (fx *FuncExec) noteSpecErr(env *SpecEnv, cl Clause) {
	if env.err != nil {
		fx.specErrs = append(fx.specErrs, fmt.Sprintf("%s: %s: %v", cl.Line, cl.Text, env.err))
		env.err = nil
	}
}

// detectSelfBinding: a captured function variable that is only ever assigned this very
// closure (the `evaluate = func(...)` idiom for recursive closures) is a recursive call.
func (fx *FuncExec) detectSelfBinding() {
	fx.selfVars = map[*ssa.FreeVar]bool{}
	parent := fx.fn.Parent()
	if parent == nil {
		return
	}
	// which parent value is bound to each free variable?
	for _, b := range parent.Blocks {
		for _, in := range b.Instrs {
			mc, ok := in.(*ssa.MakeClosure)
			if !ok || mc.Fn != ssa.Value(fx.fn) {
				continue
			}
			for i, bnd := range mc.Bindings {
				al, ok := bnd.(*ssa.Alloc)
				if !ok || i >= len(fx.fn.FreeVars) {
					continue
				}
				if _, isFn := al.Type().(*types.Pointer).Elem().Underlying().(*types.Signature); !isFn {
					continue
				}
				okAll := true
				for _, ref := range *al.Referrers() {
					if st, isStore := ref.(*ssa.Store); isStore && st.Addr == ssa.Value(al) {
						switch v := st.Val.(type) {
						case *ssa.MakeClosure:
							if v.Fn != ssa.Value(fx.fn) {
								okAll = false
							}
						case *ssa.Const:
							if !v.IsNil() {
								okAll = false
							}
						default:
							okAll = false
						}
					}
				}
				// the closure itself must not assign the variable
				fv := fx.fn.FreeVars[i]
				for _, ref := range *fv.Referrers() {
					if st, isStore := ref.(*ssa.Store); isStore && st.Addr == ssa.Value(fv) {
						okAll = false
					}
				}
				if okAll {
					fx.selfVars[fv] = true
				}
			}
		}
	}
}

// freeVarCells lets spec expressions name captured variables of a closure.
func (fx *FuncExec) freeVarValue(name string, st *State) (Val, bool) {
	for _, fv := range fx.fn.FreeVars {
		if fv.Name() == name {
			if p, ok := st.regs[fv].(PtrV); ok {
				return st.load(p)
			}
		}
	}
	return nil, false
}

// ---------------------------------------------------------------------------
// Block execution
// ---------------------------------------------------------------------------

func (fx *FuncExec) specEnv(ps *pathState, pos token.Pos, vars map[string]Val) *SpecEnv {
	if vars == nil {
		vars = map[string]Val{}
	}
	// captured variables by name
	for _, fv := range fx.fn.FreeVars {
		if _, ok := vars[fv.Name()]; !ok {
			if v, ok := fx.freeVarValue(fv.Name(), ps.st); ok {
				vars[fv.Name()] = v
			}
		}
	}
	return &SpecEnv{st: ps.st, old: fx.entry, vars: vars, fx: fx, pos: pos, loopSnap: ps.loopSnap, callRes: ps.callRes}
}

func (fx *FuncExec) loopVars(ps *pathState, li *LoopInfo) map[string]Val {
	vars := map[string]Val{}
	// range over a map: the ghost set of keys visited so far, as a set-like map value
	for _, in := range li.header.Instrs {
		if n, ok := in.(*ssa.Next); ok && !n.IsString {
			if rg, ok := n.Iter.(*ssa.Range); ok {
				if mt, ok := rg.X.Type().Underlying().(*types.Map); ok {
					ks := ps.st.keySort(mt.Key())
					vsort := "(Array " + ks + " Bool)"
					vis, have := ps.st.iterVisited[rg]
					if !have {
						vis = Term{"((as const " + vsort + ") false)", vsort}
					}
					vars["rangevisited"] = MapV{Dom: vis, Len: intLit(0), Nil: tFalse, Typ: types.NewMap(mt.Key(), types.Typ[types.Bool])}
				}
			}
		}
	}
	// rangeindex: the Alloc loaded by the first instruction of the header
	for _, in := range li.header.Instrs {
		if u, ok := in.(*ssa.UnOp); ok && u.Op == token.MUL {
			if a, ok := u.X.(*ssa.Alloc); ok && a.Comment == "rangeindex" {
				if p, ok := ps.st.regs[a].(PtrV); ok {
					if v, ok := ps.st.load(p); ok {
						vars["rangeindex"] = v
					}
				}
				// the fixed bound of a range loop: the value the incremented counter is compared with
				for _, in2 := range li.header.Instrs {
					if b, ok := in2.(*ssa.BinOp); ok && b.Op == token.LSS {
						if lc, ok := b.Y.(*ssa.Call); ok {
							if bi, ok := lc.Common().Value.(*ssa.Builtin); ok && bi.Name() == "len" && len(lc.Common().Args) == 1 {
								if sv, ok := ps.st.regs[lc.Common().Args[0]]; ok {
									vars["rangeseq"] = sv
								}
							}
						}
						if lv, ok := ps.st.regs[b.Y]; ok {
							vars["rangelen"] = lv
						} else if c, ok := b.Y.(*ssa.Const); ok && c.Value != nil {
							vars["rangelen"] = constVal(ps.st, c.Value, c.Type())
						}
					}
				}
			}
		}
		break
	}
	return vars
}

func (fx *FuncExec) isRangeLoop(li *LoopInfo) bool {
	if len(li.header.Instrs) == 0 {
		return false
	}
	if u, ok := li.header.Instrs[0].(*ssa.UnOp); ok && u.Op == token.MUL {
		if a, ok := u.X.(*ssa.Alloc); ok && a.Comment == "rangeindex" {
			return true
		}
	}
	return false
}

func (fx *FuncExec) isMapRangeLoop(li *LoopInfo) bool {
	for _, in := range li.header.Instrs {
		if n, ok := in.(*ssa.Next); ok && !n.IsString {
			return true
		}
	}
	return false
}

// rangeCounterBounds: at the loop head the hidden counter of a range loop is -1 or an index below the
// fixed bound (it starts at -1 and the body is only entered after it was incremented to a value below
// the bound).
func (fx *FuncExec) rangeCounterBounds(ps *pathState, li *LoopInfo) {
	lv := fx.loopVars(ps, li)
	ri, ok1 := lv["rangeindex"].(Scalar)
	rl, ok2 := lv["rangelen"].(Scalar)
	if ok1 && ok2 {
		ps.st.assumeGlobal(tAnd(tLe(intLit(-1), ri.T), tOr(tEq(ri.T, intLit(-1)), tLt(ri.T, rl.T))))
		if _, hi, ok := ps.st.boundOf(rl.T.S, 0); ok {
			if ps.st.bounds == nil {
				ps.st.bounds = map[string][2]*big.Int{}
			}
			ps.st.bounds[ri.T.S] = [2]*big.Int{big.NewInt(-1), hi}
		}
	}
}

func (fx *FuncExec) autoRangeVariant(ps *pathState, li *LoopInfo) {
	lv := fx.loopVars(ps, li)
	ri, ok1 := lv["rangeindex"].(Scalar)
	rl, ok2 := lv["rangelen"].(Scalar)
	if ok1 && ok2 {
		// the hidden counter never exceeds the bound (it is only incremented while below it)
		// (a fact about this iteration's fresh counter symbol: it survives modular cuts of inner loops)
		ps.st.assumeGlobal(tAnd(tLe(intLit(-1), ri.T), tOr(tEq(ri.T, intLit(-1)), tLt(ri.T, rl.T))))
		if _, hi, ok := ps.st.boundOf(rl.T.S, 0); ok {
			if ps.st.bounds == nil {
				ps.st.bounds = map[string][2]*big.Int{}
			}
			ps.st.bounds[ri.T.S] = [2]*big.Int{big.NewInt(-1), hi}
		}
		ps.variants[li] = []Term{tSub(rl.T, ri.T)}
	}
}

func (fx *FuncExec) headerPos(li *LoopInfo) token.Pos {
	for _, in := range li.header.Instrs {
		if in.Pos().IsValid() {
			return in.Pos()
		}
	}
	for b := range li.blocks {
		for _, in := range b.Instrs {
			if in.Pos().IsValid() {
				return in.Pos()
			}
		}
	}
	return token.NoPos
}

func (fx *FuncExec) execBlock(ps *pathState, blk *ssa.BasicBlock, pred *ssa.BasicBlock) {
	if fx.aborted != "" {
		return
	}
	st := ps.st
	if li := fx.loopOf[blk]; li != nil {
		unroll := 0
		if fx.con != nil {
			unroll = fx.con.Unroll[li.ord]
		}
		back := pred != nil && li.blocks[pred]
		if unroll > 0 {
			if back {
				ps.unrolls[li]++
				if ps.unrolls[li] > unroll {
					fx.addObl(fmt.Sprintf("unwind loop#%d", li.ord), "unwind", fx.con.Prop, fmt.Sprintf("loop %d runs at most %d iterations", li.ord, unroll), fx.con.Line, false, st, tFalse, ps.trail)
					return
				}
			} else {
				ps.unrolls[li] = 0
			}
		} else {
			pos := fx.headerPos(li)
			env := fx.specEnv(ps, pos, fx.loopVars(ps, li))
			if back {
				if li.spec != nil {
					for i, cl := range li.spec.Inv {
						t := env.boolTerm(cl.Expr)
						fx.noteSpecErr(env, cl)
						fx.addObl(fmt.Sprintf("inv-keep loop#%d.%s", li.ord, clauseName(cl, i)), "inv-keep", fx.prop(cl), cl.Text, cl.Line, false, st, t, ps.trail)
					}
					for i, cl := range li.spec.Dec {
						cur := env.intTerm(cl.Expr)
						fx.noteSpecErr(env, cl)
						prev := ps.variants[li][i]
						fx.addObl(fmt.Sprintf("dec loop#%d", li.ord), "dec", fx.prop(cl), "variant decreases and is bounded: "+cl.Text, cl.Line, false, st, tAnd(tLt(cur, prev), tLe(intLit(0), prev)), ps.trail)
					}
				}
				if (li.spec == nil || len(li.spec.Dec) == 0) && fx.isRangeLoop(li) {
					// a range loop has a fixed bound: its hidden counter increases towards it
					lv := fx.loopVars(ps, li)
					ri, ok1 := lv["rangeindex"].(Scalar)
					rl, ok2 := lv["rangelen"].(Scalar)
					prev := ps.variants[li]
					if ok1 && ok2 && len(prev) == 1 {
						cur := tSub(rl.T, ri.T)
						// the body of a range loop is only entered through the header's true edge, so the
						// header's test held in this iteration (inner modular cuts drop it from the path)
						if ifi, ok := li.header.Instrs[len(li.header.Instrs)-1].(*ssa.If); ok && li.blocks[li.header.Succs[0]] && !li.blocks[li.header.Succs[1]] {
							if cv, ok := st.regs[ifi.Cond].(Scalar); ok {
								st = st.clone()
								st.assume(cv.T)
							}
						}
						fx.addObl(fmt.Sprintf("dec loop#%d", li.ord), "dec", fx.propDefault(), "range loop: the counter approaches its fixed bound", fx.con.Line, false, st, tAnd(tLt(cur, prev[0]), tLe(intLit(0), prev[0])), ps.trail)
					}
				} else if (li.spec == nil || len(li.spec.Dec) == 0) && fx.isMapRangeLoop(li) {
					// a range over a map visits each key at most once: it terminates (no variant needed)
				} else if li.spec == nil || len(li.spec.Dec) == 0 {
					if fx.con != nil && !fx.con.Trusted {
						// a loop under contract without a variant: termination is not proved
						fx.c.unsup("loop#%d has no decreases clause (termination not proved)", li.ord)
					}
				}
				return
			}
			if li.spec != nil {
				for _, cl := range li.spec.Assume {
					t := env.boolTerm(cl.Expr)
					fx.noteSpecErr(env, cl)
					st.assume(t)
				}
				for i, cl := range li.spec.Inv {
					t := env.boolTerm(cl.Expr)
					fx.noteSpecErr(env, cl)
					fx.addObl(fmt.Sprintf("inv-entry loop#%d.%s", li.ord, clauseName(cl, i)), "inv-entry", fx.prop(cl), cl.Text, cl.Line, false, st, t, ps.trail)
				}
			}
			if fx.con != nil && fx.con.CutLoops {
				// modular loop: explore what follows the header once, knowing only the invariant
				if fx.cutDone == nil {
					fx.cutDone = map[*LoopInfo]bool{}
				}
				if fx.cutDone[li] {
					return
				}
				fx.cutDone[li] = true
				st.pc = append([]Term(nil), st.keep...)
				st.facts = nil
				for _, k := range st.keep {
					st.noteFacts(k.S, 0)
				}
			}
			if ps.loopSnap == nil {
				ps.loopSnap = map[int]*State{}
			}
			ps.loopSnap[-li.ord] = st.snapshot() // state on entry to the loop (before_loop)
			fx.havocLoop(ps, li)
			ps.loopSnap[li.ord] = st.snapshot() // state at the start of the current iteration (at_loop)
			env = fx.specEnv(ps, pos, fx.loopVars(ps, li))
			if li.spec != nil {
				// `loop k assume` holds at the loop head of every iteration (an assumption, listed in the evidence)
				for _, cl := range li.spec.Assume {
					t := env.boolTerm(cl.Expr)
					fx.noteSpecErr(env, cl)
					st.assume(t)
				}
				for _, cl := range li.spec.Inv {
					t := env.boolTerm(cl.Expr)
					fx.noteSpecErr(env, cl)
					st.assume(t)
				}
				var vs []Term
				for _, cl := range li.spec.Dec {
					vs = append(vs, env.intTerm(cl.Expr))
					fx.noteSpecErr(env, cl)
				}
				ps.variants[li] = vs
				if len(li.spec.Inv) > 0 {
					fx.addObl(fmt.Sprintf("cover:loop#%d", li.ord), "cover", fx.con.Prop, "loop invariant is satisfiable", fx.con.Line, true, st, tTrue, ps.trail)
				}
			}
			if fx.con != nil && (li.spec == nil || len(li.spec.Dec) == 0) && fx.isRangeLoop(li) {
				fx.autoRangeVariant(ps, li)
			} else if fx.isRangeLoop(li) {
				fx.rangeCounterBounds(ps, li)
			}
		}
	}
	ps.trail = append(ps.trail, fmt.Sprintf("b%d", blk.Index))
	ps.pred = pred
	fx.execFrom(ps, blk, 0)
}

func (fx *FuncExec) execFrom(ps *pathState, blk *ssa.BasicBlock, start int) {
	for i := start; i < len(blk.Instrs); i++ {
		if fx.aborted != "" {
			return
		}
		if fx.execControl(ps, blk, blk.Instrs[i]) {
			return
		}
		if f := ps.midFork; f != nil {
			ps.midFork = nil
			f.pred = ps.pred
			fx.paths++
			if fx.paths > fx.maxPaths {
				fx.aborted = fmt.Sprintf("path limit %d exceeded", fx.maxPaths)
				return
			}
			fx.execFrom(f, blk, i+1)
		}
	}
}

// execControl executes one instruction; it returns true when the instruction ended the block.
func (fx *FuncExec) execControl(ps *pathState, blk *ssa.BasicBlock, in ssa.Instruction) bool {
	st := ps.st
	var pred *ssa.BasicBlock
	{
		switch x := in.(type) {
		case *ssa.If:
			cv, ok := st.regs[x.Cond].(Scalar)
			if !ok {
				cv = Scalar{fx.c.fresh("cond", SBool), types.Typ[types.Bool]}
			}
			if cv.T.S == "true" {
				fx.execBlock(ps, blk.Succs[0], blk)
				return true
			}
			if cv.T.S == "false" {
				fx.execBlock(ps, blk.Succs[1], blk)
				return true
			}
			// (the literal is appended again so that the surviving path's queries are textually the same
			// as without pruning: some proofs are sensitive to the shape of the path condition)
			if st.knownTrue(cv.T) {
				st.pc = append(st.pc, cv.T)
				fx.execBlock(ps, blk.Succs[0], blk)
				return true
			}
			if st.knownFalse(cv.T) {
				st.pc = append(st.pc, tNot(cv.T))
				fx.execBlock(ps, blk.Succs[1], blk)
				return true
			}
			fx.paths++
			if fx.paths > fx.maxPaths {
				fx.aborted = fmt.Sprintf("path limit %d exceeded", fx.maxPaths)
				return true
			}
			other := ps.fork()
			ps.st.assume(cv.T)
			fx.execBlock(ps, blk.Succs[0], blk)
			other.st.assume(tNot(cv.T))
			fx.execBlock(other, blk.Succs[1], blk)
			return true
		case *ssa.Jump:
			fx.execBlock(ps, blk.Succs[0], blk)
			return true
		case *ssa.Return:
			fx.siteAsserts(ps, fmt.Sprintf("return#%d", fx.siteOrd[in]), "before", nil)
			fx.doReturn(ps, x)
			return true
		case *ssa.Panic:
			fx.addObl(fmt.Sprintf("safe:panic#%d", fx.siteOrd[in]), "safe", fx.propDefault(), "explicit panic is unreachable", fx.posStr(in.Pos()), false, st, tFalse, ps.trail)
			return true
		default:
			fx.step(ps, in, ps.pred)
			if ps.stopped {
				return true
			}
		}
	}
	_ = pred
	return false
}

// regionEnd: the ensures clauses of a region contract at its stop site.
func (fx *FuncExec) regionEnd(ps *pathState) {
	vars := map[string]Val{}
	for k, v := range fx.paramEntry {
		vars[k] = v
	}
	env := fx.specEnv(ps, token.NoPos, vars)
	for i, cl := range fx.con.Ensures {
		t := env.boolTerm(cl.Expr)
		fx.noteSpecErr(env, cl)
		fx.addObl("post."+clauseName(cl, i), "post", fx.prop(cl), cl.Text, cl.Line, false, ps.st, t, ps.trail)
	}
}

func clauseName(cl Clause, i int) string {
	if cl.Name != "" {
		return cl.Name
	}
	return fmt.Sprintf("%d", i+1)
}

func (fx *FuncExec) propDefault() string {
	if fx.con != nil {
		return fx.con.Prop
	}
	return ""
}

func (fx *FuncExec) posStr(p token.Pos) string {
	if !p.IsValid() {
		return ""
	}
	pp := fx.fn.Prog.Fset.Position(p)
	return fmt.Sprintf("%s:%d", strings.TrimPrefix(pp.Filename, repoRoot+"/"), pp.Line)
}

// ---------------------------------------------------------------------------
// Return: postconditions, frame, recursion variant
// ---------------------------------------------------------------------------

func (fx *FuncExec) doReturn(ps *pathState, r *ssa.Return) {
	st := ps.st
	if fx.con == nil {
		return
	}
	vars := map[string]Val{}
	for k, v := range fx.paramEntry {
		vars[k] = v
	}
	for i, res := range r.Results {
		v := fx.val(st, res)
		if i < len(fx.resNames) && fx.resNames[i] != "" && fx.resNames[i] != "_" {
			vars[fx.resNames[i]] = v
		}
		vars[fmt.Sprintf("result%d", i)] = v
		if i == 0 {
			vars["result"] = v
		}
	}
	env := fx.specEnv(ps, token.NoPos, vars)
	var results []Val
	for _, res := range r.Results {
		results = append(results, fx.val(st, res))
	}
	fx.pendingReplay = &ReplayInfo{fx: fx, kind: "post", st: st, results: results}
	for i, cl := range fx.con.Ensures {
		t := env.boolTerm(cl.Expr)
		fx.noteSpecErr(env, cl)
		fx.addObl("post."+clauseName(cl, i), "post", fx.prop(cl), cl.Text, cl.Line, false, st, t, ps.trail)
	}
	fx.pendingReplay = nil
	if !fx.con.NoFrame {
		fx.frameCheck(ps)
	}
}

// frameCheck: every object that existed at entry and is not named by a
// modifies clause is unchanged.
func (fx *FuncExec) frameCheck(ps *pathState) {
	st := ps.st
	type loc struct {
		obj   ObjID
		field int
	}
	allowed := map[loc]bool{}
	wholeObj := map[ObjID]bool{}
	type heapLoc struct {
		name string
		ref  Term
	}
	var heapAllowed []heapLoc
	var heapEvery []string
	vars := map[string]Val{}
	for k, v := range fx.paramEntry {
		vars[k] = v
	}
	for _, fv := range fx.fn.FreeVars {
		if v, ok := fx.freeVarValue(fv.Name(), fx.entry); ok {
			vars[fv.Name()] = v
		}
	}
	env := &SpecEnv{st: fx.entry, old: fx.entry, vars: vars, fx: nil, lvFx: fx}
	for _, cl := range fx.con.Modifies {
		if nm, _, ok := fx.pk.everyField(cl.Expr); ok {
			heapEvery = append(heapEvery, nm)
			continue
		}
		p, v, ok := env.lvalue(cl.Expr)
		if !ok {
			fx.specErrs = append(fx.specErrs, fmt.Sprintf("%s: cannot resolve modifies %s: %v", cl.Line, cl.Text, env.err))
			env.err = nil
			continue
		}
		if p.Sym != "" {
			if et, ok := symStructElem(p); ok {
				_, name, _ := heapPath(et, typeKey(et), p.Path)
				heapAllowed = append(heapAllowed, heapLoc{name, Term{p.Sym, SRef}})
			}
		} else if p.Obj != 0 {
			if len(p.Path) == 0 {
				wholeObj[p.Obj] = true
			} else if p.Path[0].Field >= 0 {
				allowed[loc{p.Obj, p.Path[0].Field}] = true
			} else {
				wholeObj[p.Obj] = true
			}
		}
		markSlices(v, wholeObj)
	}
	var ids []int
	for id := range fx.entryObjs {
		ids = append(ids, int(id))
	}
	sort.Ints(ids)
	for _, idi := range ids {
		id := ObjID(idi)
		if wholeObj[id] {
			continue
		}
		ov, nv := fx.entry.objs[id], st.objs[id]
		if osv, ok := ov.(StructV); ok {
			nsv, ok2 := nv.(StructV)
			if ok2 {
				for i := range osv.F {
					if allowed[loc{id, i}] {
						continue
					}
					if !sameVal(osv.F[i], nsv.F[i]) {
						fx.addObl("frame", "frame", fx.con.Prop, "only locations named by modifies change", fx.con.Line, false, st, st.eqVal(osv.F[i], nsv.F[i]), ps.trail)
					}
				}
				continue
			}
		}
		if !sameVal(ov, nv) {
			fx.addObl("frame", "frame", fx.con.Prop, "only locations named by modifies change", fx.con.Line, false, st, st.eqVal(ov, nv), ps.trail)
		}
	}
	// heap arrays (fields of struct objects behind unknown pointers)
	var hnames []string
	if st.epoch != fx.entry.epoch {
		for n := range fx.c.heapSorts {
			hnames = append(hnames, n)
		}
	} else {
		seen := map[string]bool{}
		for n := range st.heap {
			seen[n] = true
		}
		for n := range fx.entry.heap {
			seen[n] = true
		}
		for n := range seen {
			hnames = append(hnames, n)
		}
	}
	sort.Strings(hnames)
	for _, n := range hnames {
		he, hf := fx.entry.harrN(n), st.harrN(n)
		if he.S == hf.S {
			continue
		}
		every := false
		for _, e := range heapEvery {
			if n == e || strings.HasPrefix(n, e+"_") {
				every = true
			}
		}
		if every {
			continue
		}
		var except []Term
		r := Term{fx.c.boundName("r"), SRef}
		for _, a := range heapAllowed {
			if n == a.name || strings.HasPrefix(n, a.name+"_") {
				except = append(except, tNot(tEq(r, a.ref)))
			}
		}
		body := tEq(tSelect(hf, r), tSelect(he, r))
		if len(except) > 0 {
			body = tImplies(tAnd(except...), body)
		}
		goal := Term{fmt.Sprintf("(forall ((%s Ref)) %s)", r.S, body.S), SBool}
		fx.addObl("frame", "frame", fx.con.Prop, "only locations named by modifies change", fx.con.Line, false, st, goal, ps.trail)
	}
	if _, ok := fx.obls["frame"]; !ok {
		fx.addObl("frame", "frame", fx.con.Prop, "only locations named by modifies change", fx.con.Line, false, st, tTrue, ps.trail)
	}
}

func markSlices(v Val, set map[ObjID]bool) {
	switch x := v.(type) {
	case SliceV:
		if x.Arr != 0 {
			set[x.Arr] = true
		}
	case StructV:
		for _, f := range x.F {
			markSlices(f, set)
		}
	}
}

func sameVal(a, b Val) bool { return fmt.Sprintf("%v", a) == fmt.Sprintf("%v", b) }

