package main

import (
	"encoding/json"
	"fmt"
	"os"
	"os/exec"
	"path/filepath"
	"strings"
	"time"
)

// Bounded stand-ins (DESIGN 2.7): where a function is outside the verifier's reach a bounded
// check through the real code stands in. They are labelled bounded in the evidence and never
// counted among the discharged obligations.
type Standin struct {
	Name        string
	Pkg         string // package directory relative to /repo
	TestFile    string // under /verif/standins
	TestName    string
	OutEnv      string
	EnvQuick    []string
	EnvThorough []string
	Bound       string
	Timeout     time.Duration
	Extra       map[string]string // other repository files replaced for the test build (repo path -> file under /verif/standins)
}

var propStandins = map[string][]Standin{
	"C14": {{
		Name: "parse-totality", Pkg: "internal/query", TestFile: "parse_standin_test.go", TestName: "TestC14Standin", OutEnv: "C14_OUT",
		EnvQuick: []string{"C14_TEXTS=6000"}, EnvThorough: []string{"C14_TEXTS=60000"},
		Bound:   "the parser as a whole (participle grammar, every capture function, translation into conditions, Clean): 6000 (quick) / 60000 (thorough) seeded query texts - expressions of depth <= 2 over every filter kind with value lists, ranges, arithmetic on variables (also cancelling terms), host masks, relative and absolute times, tag name lists, converter names, sort/limit/group terms, sub-query prefixes, AND/OR/THEN/NOT and brackets, with edge values (empty list elements, huge numbers, malformed addresses and expressions); every third text is additionally damaged by one random edit (deleted, doubled or inserted character, truncation); plus 35 texts with runs of 10 to 2^20 negations / brackets. Parse must return within 20 s without panicking; an accepted text parsed twice gives the same normal form, which prints without panicking. Texts with more than 6 list separators/ORs/negated brackets are skipped (exponential normal forms are outside the promptness claim)",
		Timeout: 10 * time.Minute,
	}},
	"C10": {{
		Name: "view-stability", Pkg: "internal/index/manager", TestFile: "view_standin_test.go", TestName: "TestC10Standin", OutEnv: "C10_OUT",
		EnvQuick: []string{"C10_HISTORIES=80", "C10_LEN=12"}, EnvThorough: []string{"C10_HISTORIES=600", "C10_LEN=16"},
		Bound:   "stability of a view over its lifetime (the copy-on-write discipline of every writer in the manager; only the enumeration kernel of a view is under contract): 80 (quick) / 600 (thorough) seeded histories of 12 / 16 manager calls out of AddTag (mark, tag, service with 6 definitions), mark add / mark delete, definition updates, imports of 4 more streams (up to 16), small imports of one new conversation in a capture of its own (up to 12; enough of them trigger merges that replace files a held view references), more data for an old small conversation alone in its capture, opening a view (at most 3 alive, a third of the histories start on an empty service), releasing a view; after every call a fresh view must still show every stream an earlier fresh view showed, with the same client endpoint (nothing reported processed disappears or changes identity), and every live view is asked again - all streams with byte counts, HasTag for every tag it knew when it was opened, and searches for and against each of these tags - and must answer exactly as it did when it was opened. Background jobs (tagging, merging) run as they come; their interleaving is not controlled",
		Timeout: 10 * time.Minute,
	}},
	"C05": {{
		Name: "wire", Pkg: "internal/index/manager", TestFile: "wire_standin_test.go", TestName: "TestC05Standin", OutEnv: "C05_OUT",
		EnvQuick: []string{"C05_ROUNDS=40"}, EnvThorough: []string{"C05_ROUNDS=800"},
		Bound:   "the import pipeline from capture files to visible streams with known ground truth (capture parsing, packet ordering, gopacket's TCP reassembly and the UDP flow tracking as the service configures them, direction assignment, stream writing; only what the reassembly callbacks record is under contract): 40 (quick) / 800 (thorough) seeded rounds of 1-5 conversations - TCP connections with a complete three-way handshake, 1-4 application messages alternating between the endpoints (client or server first), each cut into 1 or more segments, with a third of the messages having two neighbouring segments swapped and a third one segment retransmitted, acknowledgements, sequence numbers that wrap in some connections, a FIN exchange or not; UDP flows with 1-4 datagrams in alternating directions; a quarter of the conversations long lived (up to 4 minutes between packets, more than the 5 minute idle limit in total); 7 payload texts; the packets of all conversations interleaved by time, cut chronologically into 1-3 capture files and imported in one call or one by one - and the service must show exactly one stream per conversation with the right protocol, client and server endpoint and, per direction change, exactly the application bytes that were sent. Not generated: IPv6, IP fragments, connections without handshake, overlapping retransmissions with different content, reordering across more than one segment, lost segments, time-outs, packets of one connection spread over captures imported out of order (see C08)",
		Timeout: 10 * time.Minute,
	}},
	"C08": {{
		Name: "batching", Pkg: "internal/index/manager", TestFile: "batching_standin_test.go", TestName: "TestC08Standin", OutEnv: "C08_OUT",
		EnvQuick: []string{"C08_ROUNDS=10"}, EnvThorough: []string{"C08_ROUNDS=120"},
		Bound:   "independence of the import result from batching and arrival order (replay of older captures, reassembly state across captures, classification of streams as added/updated/reset; only the choice of stream ids is under contract): 10 (quick) / 120 (thorough) seeded rounds of 2-6 UDP conversations with 1-4 datagrams each (both directions, 5 payload words, gaps of 1-30 s, interleaved in time), cut chronologically into 1-4 capture files; the files are imported into separate services (a) all in one call, (b) one by one in order, (c) one by one in a shuffled order, (d) one by one with a restart of the service after every capture, (e) by one import call per capture issued back to back (the later ones wait in the queue); a third of the conversations are long lived (minutes between datagrams, always below the idle limit; failures of the shuffled order in rounds with such a conversation are a known finding and classified apart), and one round holds a capture of 100200 datagrams, which makes the importer take a reassembly snapshot while a long-lived conversation is active; (b)-(e) must end up showing exactly what (a) shows (per stream: client and server endpoint, payload per direction in order), (a) must show one stream per conversation, and within a service after every capture every stream id seen before still names the same pair of endpoints and no pair of endpoints is visible under two ids. Not generated: TCP (reassembly, retransmissions, reordering; see C05), IPv6, conversations that pause longer than the idle limit, re-import of a known capture, out-of-order arrival of long-lived conversations",
		Timeout: 10 * time.Minute,
	}},
	"C19": {{
		Name: "file-endpoints", Pkg: "cmd/pkappa2", TestFile: "upload_standin_test.go", TestName: "TestC19Standin", OutEnv: "C19_OUT",
		Extra:    map[string]string{"web/web.go": "web_stub.go.txt"},
		EnvQuick: []string{"C19_REQUESTS=400"}, EnvThorough: []string{"C19_REQUESTS=6000"},
		Bound:   "the two file endpoints through the real router (chi routing and URL decoding, net/http path cleaning, filepath, the file system; only the handlers' own calls are under contract): an httptest server around setupRouter with a real Manager on temporary directories; 400 (quick) / 6000 (thorough) seeded requests out of POST /upload/<p> and GET /api/download/pcap/<p> where <p> is one of 19 prefixes (none, ../, ..%2f, %2e%2e/, %2e%2e%2f, ../state/, ./, //, /, %2f, sub/, ..%5c, ....//, %00, ..;/, pcap/../../, doubly encoded, ...) followed by one of 11 names (plain, existing, a name that also exists outside the capture directory, spaces, non-ASCII, dot names, wrong suffixes, upper case), and pairs of simultaneous uploads of one new name; after every request the whole temporary tree (except what the service's own jobs write) is compared with the tree before: no file outside the capture directory appears, changes or disappears, an accepted upload creates exactly one file directly inside the capture directory holding exactly the body, an upload of an existing name changes nothing, a download returns only the content of a file in the capture directory and never the secret stored outside, of two simultaneous uploads exactly one succeeds and its body is what is stored. web/web.go is replaced by a stub for this test build (it embeds the built frontend, which does not exist in the sandbox). Not generated: authentication, very long names, symbolic links inside the capture directory",
		Timeout: 5 * time.Minute,
	}},
	"C12": {{
		Name: "kill-restart", Pkg: "internal/index/manager", TestFile: "crash_standin_test.go", TestName: "TestC12Standin", OutEnv: "C12_OUT",
		EnvQuick: []string{"C12_HISTORIES=15", "C12_LEN=24"}, EnvThorough: []string{"C12_HISTORIES=150", "C12_LEN=30"},
		Bound:   "restart after a kill (only the order of operations inside saveState and Writer.Finalize is under contract): 15 (quick) / 150 (thorough) seeded histories of 24 / 30 manager calls out of small imports (awaited until reported processed, or not awaited), AddTag / DelTag / definition updates, pauses, and kills; a kill copies the state, snapshot, index and capture directories from inside the service goroutine - i.e. between two handlers, while import, merge and tagging jobs keep writing - and may add to the copy a half-written index file (a prefix of a complete one without its magic) under a newer name and a half-written newer state file next to the complete one; a second service is started on the copy and must start within 30 s without an error, show every tag acknowledged before the kill with its definition and colour and no other tag, show every stream of every import that was reported processed before the kill under its old id and client endpoint, settle, and then decide every tag for exactly the streams its definition selects. Crash points inside a handler (between the write of the new state file and the removal of the old one, inside a release) are not generated; converter caches and snapshots are copied but no converter is installed and no capture is large enough for a snapshot",
		Timeout: 10 * time.Minute,
	}},
	"C16": {{
		Name: "converter-output", Pkg: "internal/index/manager", TestFile: "converter_standin_test.go", TestName: "TestC16Standin", OutEnv: "C16_OUT",
		EnvQuick: []string{"C16_HISTORIES=16", "C16_LEN=14"}, EnvThorough: []string{"C16_HISTORIES=120", "C16_LEN=20"},
		Bound:   "converter output end to end with a real converter process (a python3 script the harness writes into the converter directory; it answers every stream with the same chunks in upper case): 16 (quick) / 120 (thorough) seeded histories of 14 / 20 manager calls out of imports of a new conversation (server port 9001 or 80, one of 4 payload words), imports of more data for an old conversation and imports of a capture older than everything imported so far (the stream is extended or rebuilt: its output has to be produced again), AddTag of three tags, attaching / detaching the converter, pauses; after every call the service is left alone until no job runs and nothing is queued for conversion, then on a fresh view: a search in the converter output (data.up:WORD, four words) must find every stream that is matched by a tag the converter is attached to and whose current upper-cased payload contains the word, and no stream whose current upper-cased payload does not contain it; the converter output shown for every such stream (at the end of the history: for every stream) must be its current payload in upper case, chunk by chunk. The interleaving of converter, import and tagging jobs is whatever the scheduler produces; reads while a converter job is running, converter crashes, several converters and cache files surviving a restart are not generated. Needs python3 on PATH",
		Timeout: 10 * time.Minute,
	}},
	"C13": {{
		Name: "refcount", Pkg: "internal/index/manager", TestFile: "refcount_standin_test.go", TestName: "TestC13Standin", OutEnv: "C13_OUT",
		EnvQuick: []string{"C13_HISTORIES=12", "C13_LEN=30"}, EnvThorough: []string{"C13_HISTORIES=120", "C13_LEN=40"},
		Bound:   "life time of index files across holders and goroutine hand-offs (only lock/release and the pairing inside each completion closure are under contract): 12 (quick) / 120 (thorough) seeded histories of 30 / 40 manager calls out of small imports (1-3 packets, new conversations and more data for old ones; enough of them trigger merges), AddTag / definition updates (tagging jobs), opening a view (at most 4 alive) and reading it, releasing a view, pauses, restarts on the same directories (after the old service went quiet); after every call every held view must still be able to read all its streams with payload (by enumeration and by id) and every index file it references must exist; at the end all views are released, the service is left alone until nothing runs, and then the index directory must hold exactly the files the service serves from, every served file must be counted exactly once, nothing else may be counted, Status.IndexLockCount must equal the number of served files and a fresh view must read everything. The interleaving of job completions is whatever the scheduler produces; converter jobs are not generated",
		Timeout: 10 * time.Minute,
	}},
	"C07": {{
		Name: "merge-roundtrip", Pkg: "internal/index", TestFile: "roundtrip_standin_test.go", TestName: "TestC01Standin", OutEnv: "C01_OUT",
		EnvQuick: []string{"C01_MERGE=1", "C01_ROUNDS=60", "C01_MERGE_HOSTS=4000"}, EnvThorough: []string{"C01_MERGE=1", "C01_ROUNDS=600", "C01_MERGE_HOSTS=4090"},
		Bound:   "merging as a whole (newest-wins skipping, payload and packet copy, host remapping, time re-basing, lookups of the merged files; only the re-basing arithmetic and the manager's splice are under contract): 60 (quick) / 600 (thorough) seeded groups of 2-4 index files with 1-6 streams each over 10 stream ids, later files holding newer versions of some ids, files written with reference times up to 1000 h apart, stream shapes as in the C01 round-trip stand-in (long packet lists, payload around 64 KiB, wrapping relative times); after index.Merge the merged files together hold exactly one record per visible id and return the newest version of every stream exactly as it was written (hosts, ports, protocol, byte counts, first/last time, every packet's capture source/direction/time, payload per direction in order with its time stamps); plus one merge of a file with 4000 / 4090 IPv6 hosts and an older file with 200 more that share the server (host remapping overflowing a host group)",
		Timeout: 20 * time.Minute,
	}},
	"C01": {{
		Name: "roundtrip", Pkg: "internal/index", TestFile: "roundtrip_standin_test.go", TestName: "TestC01Standin", OutEnv: "C01_OUT",
		EnvQuick: []string{"C01_ROUNDS=60", "C01_HOSTS=30000"}, EnvThorough: []string{"C01_ROUNDS=600", "C01_HOSTS=70000"},
		Bound:   "write with the real Writer, read back with the real Reader: 60 (quick) / 600 (thorough) seeded index files of 1-8 streams (IPv4 and IPv6 hosts, TCP/UDP, 1-8 packets or 300-700 packets with few payloads (skip counters), payload pieces of 1 byte to 200000 bytes around the 64 KiB record limit, packet gaps from 0 to beyond 2^32 microseconds incl. long lived streams whose 32 bit relative times wrap while payload-less packets are skipped, capture files with packet numbers beyond 2^32), plus one file with 30000 / 70000 streams from distinct hosts (more than one host group per address family); compared: hosts, ports, protocol, byte counts, first/last time, every packet's capture file/number/direction/time, payload per direction in conversation order and its time stamps, StreamByID, StreamByFirstPacketSource",
		Timeout: 20 * time.Minute,
	}},
	"C04": {{
		Name: "payload-oracle", Pkg: "internal/index", TestFile: "search_standin_test.go", TestName: "TestC02Standin", OutEnv: "C02_OUT",
		EnvQuick: []string{"C02_THEN=1", "C02_ANCHORS=1", "C02_VARS=1", "C02_ROUNDS=40", "C02_QUERIES=60"}, EnvThorough: []string{"C02_THEN=1", "C02_ANCHORS=1", "C02_VARS=1", "C02_ROUNDS=200", "C02_QUERIES=80"},
		Bound:   "payload filters end to end (expression analysis, shortcut scan, sequence progress across chunks and directions, success/failure accounting, negation): the search-oracle stand-in of C02 (populations of up to 9 stream ids over 1-3 index files, 0-3 payload chunks per stream in either direction out of 10 chunk texts) where half of the payload atoms are THEN chains of 1-3 cdata/sdata elements over 11 expressions (literals, classes, repetition, alternation, fixed and variable length, with literal prefixes and suffixes) plus 8 expressions with assertions (^ $ \\A \\z \\b); compared with a plain left-to-right scan: each element is searched with Go's regexp in its direction's payload from where the previous match ended, and a match ending in chunk i puts the other direction's position after chunk i; also negated and combined with other filters; 40 (quick) / 200 (thorough) populations x 60 / 80 queries. a third of the chains bind a named group in the first element (also optional groups and groups in an alternative that is not taken) and require its text again in a later element (@v@); a fifth of the longer chains negate their last element (a then -b); Not generated: variables from sub-queries, data filters without direction inside chains, converter outputs",
		Timeout: 10 * time.Minute,
	}},
	"C03": {{
		Name: "normal-form-oracle", Pkg: "internal/index", TestFile: "search_standin_test.go", TestName: "TestC02Standin", OutEnv: "C02_OUT",
		EnvQuick: []string{"C02_THEN=1", "C02_ROUNDS=25", "C02_QUERIES=60"}, EnvThorough: []string{"C02_THEN=1", "C02_TAGS=1", "C02_ROUNDS=150", "C02_QUERIES=80"},
		Bound:   "the meaning of the normal form end to end (the parts of normalisation that are not under contract: And, the clean* rewrites, time/flag/data atoms, THEN sequences and their negation, translation from text): generated query expressions of depth <= 3 over id/port/bytes/host(/mask)/protocol/time/data filters and THEN chains with AND, OR, NOT, lists and ranges are parsed, normalised and searched over generated populations (25 (quick) / 150 (thorough) populations x 60 / 80 queries); the streams found must be exactly those the expression as written accepts when evaluated directly on the stream's attributes and payload",
		Timeout: 10 * time.Minute,
	}},
	"C06": {{
		Name: "tag-freshness", Pkg: "internal/index/manager", TestFile: "fresh_standin_test.go", TestName: "TestC06FreshStandin", OutEnv: "C06_OUT",
		EnvQuick: []string{"C06_HISTORIES=150", "C06_LEN=10"}, EnvThorough: []string{"C06_HISTORIES=1200", "C06_LEN=12"},
		Bound:   "freshness of decided tags after a history (not a proof about interleavings: the scheduler's interleaving of job completions with the calls is whatever happens in the run): 150 (quick) / 1200 (thorough) seeded histories of 10 / 12 manager calls out of AddTag (tag/a, tag/b, service/s with plain, payload, negated, tag-referencing and sub-query-referencing definitions; mark/m), definition updates (of marks too: a new id list), mark add/delete, imports of more packets (new streams and more data for existing conversations), short pauses; then the service is left alone until no job runs and no tag reports undecided streams (30 s limit), and for every tag the search `tag:x` must return exactly the streams the search for its current definition returns",
		Timeout: 10 * time.Minute,
	}, {
		Name: "tag-search", Pkg: "internal/index", TestFile: "search_standin_test.go", TestName: "TestC02Standin", OutEnv: "C02_OUT",
		EnvQuick: []string{"C02_TAGS=1", "C02_ROUNDS=40", "C02_QUERIES=60"}, EnvThorough: []string{"C02_TAGS=1", "C02_ROUNDS=200", "C02_QUERIES=80"},
		Bound:   "searches that use tag filters while tags are partly undecided (sequential: no job runs during a search): the search-oracle stand-in of C02 (populations of up to 9 stream ids over 1-3 index files, generated queries, sort keys, limits, pages) with three tags tag/ta, tag/tb, tag/tc per population - random decided-match sets, random undecided sets (with stale match bits under undecided streams), generated definitions of depth <= 2 that may name earlier tags - passed to SearchStreams as TagDetails; a tag filter must select a decided stream by its match bit and an undecided stream by the tag's definition, also under negation, in conjunctions of all three tags and through tags that name tags; 40 (quick) / 200 (thorough) populations x 60 / 80 queries. Not covered: interleavings of job completions with API calls (the property's main quantifier), imports, marks, converters",
		Timeout: 10 * time.Minute,
	}},
	"C11": {{
		Name: "tag-api", Pkg: "internal/index/manager", TestFile: "tags_standin_test.go", TestName: "TestC11Standin", OutEnv: "C11_OUT",
		EnvQuick: []string{"C11_SEQS=150", "C11_LEN=7"}, EnvThorough: []string{"C11_SEQS=1500", "C11_LEN=9"},
		Bound:   "the tag management API as a whole through a real Manager (validation outside the handlers, UpdateTag, acyclicity, atomicity of rejected calls, responsiveness): 150 (quick) / 1500 (thorough) seeded random sequences of 7 / 9 calls out of AddTag, DelTag, UpdateTag(query | colour | name | mark add | mark del | converter set), restart, over 9 names (6 valid, 3 invalid), 14 fixed definitions plus definitions over the tags that exist, 9 stream id lists (incl. ids 2^64-1 and 2^64-2), 7 converter lists over three installed converters and an unknown one, with and without 4 imported streams; after every call: error exactly when a plain model of the graph rejects it (unknown/duplicate/invalid name, parse error, self reference, missing reference, reference cycle, delete or rename of a referenced tag, unknown stream id), a rejected call leaves ListTags unchanged, names/definitions/colours/Referenced flags/mark counts/attached converters equal the model, every call answers within 10 s",
		Timeout: 10 * time.Minute,
	}},
	"C02": {{
		Name: "search-oracle", Pkg: "internal/index", TestFile: "search_standin_test.go", TestName: "TestC02Standin", OutEnv: "C02_OUT",
		EnvQuick: []string{"C02_ROUNDS=40", "C02_QUERIES=60"}, EnvThorough: []string{"C02_ROUNDS=200", "C02_QUERIES=80"},
		Bound:   "the search pipeline as a whole (parser, normal form, per-index filters and lookups, scan strategies, sorted limited accumulator, paging): 40 (quick) / 200 (thorough) seeded populations of up to 9 stream ids spread over 1-3 index files with shadowed older versions (IPv4 and IPv6 hosts, 5 ports, 0-3 payload chunks in either direction, TCP/UDP), each with 60 / 80 generated queries of depth <= 3 over id/port/bytes/host(/mask)/protocol/time/data filters with AND, OR, NOT, value lists and ranges, 0-2 sort keys, limits {0,1,2,3,5,100} and pages; the result (ids, each once, newest version, order, page, more-flag) is compared with a direct evaluation of the query on the visible streams. Not generated: THEN sequences, sub-queries, variables, tags, converters, grouping, doubly negated value lists (their normal form takes hours)",
		Timeout: 10 * time.Minute,
	}},
	"C17": {{
		Name: "set-model", Pkg: "internal/tools/bitmask", TestFile: "bitmask_standin_test.go", TestName: "TestC17Standin", OutEnv: "C17_OUT",
		EnvQuick: []string{"C17_LEN=2", "C17_RANDOM=20000"}, EnvThorough: []string{"C17_LEN=3", "C17_RANDOM=200000"},
		Bound:   "ShortBitmask (linked words, outside the verifier's memory model), the membership meaning of ConnectedBitmask's Or/And/Xor/Sub/Inject/Extract (their canonical form is proved, their membership only partly) and the agreement of the three representations: every sequence of up to 2 (quick) / 3 (thorough) operations out of 102 (set/unset/flip/inject true|false/extract at bits {0,1,2,62,63,64,65,127,128,129}; or/and/xor/sub with 10 operand sets; copy; shrink) plus 20000 / 200000 seeded random sequences of up to 6 more operations, after every step compared with a plain set model (IsSet for bits < 200, OnesCount, Len, IsZero, Equal against the same set built by Set)",
		Timeout: 20 * time.Minute,
	}},
	"C15": {{
		Name: "cache-ops", Pkg: "internal/index/converters", TestFile: "cachefile_standin_test.go", TestName: "TestC15Standin", OutEnv: "C15_OUT",
		EnvQuick: []string{"C15_LEN=3", "C15_RANDOM=3000"}, EnvThorough: []string{"C15_LEN=4", "C15_RANDOM=30000"},
		Bound:   "the cache file as a whole (record encoding with varbytes/strings, load-time scan, compaction, invalidation, reset): every sequence of up to 3 (quick) / 4 (thorough) operations from {store(id in 1..3, one of 4 chunk lists incl. server-first, same-time chunks, content types, a 200 byte chunk, time going backwards), invalidate(id), reset, reopen} plus 3000 / 30000 seeded random sequences of up to 4 more operations, checked after every step against a map model through the real functions on a real file; every cut point inside the last record of a 3-record file; two inputs outside the chunk-list type invariant (empty chunk, sub-microsecond times)",
		Timeout: 20 * time.Minute,
	}},
	"C18": {{
		Name: "regex-walk", Pkg: "internal/tools/regexAnalysis", TestFile: "regexanalysis_standin_test.go", TestName: "TestC18Standin", OutEnv: "C18_OUT",
		EnvQuick: []string{"C18_DEPTH=1", "C18_MAXLEN=5"}, EnvThorough: []string{"C18_DEPTH=2", "C18_MAXLEN=6"},
		Bound:   "AcceptedLength and ConstantSuffix as a whole (the memoised walk over compiled programs): every expression built from 14 atoms (a b B . [ab] [^a] (?i:a) ab ba ^ $ \\b \\A \\z) by one (quick) or two (thorough) composition steps (* + ? {2} {1,2} {2,} group (?i) concatenation alternation, with literal prefix/suffix), compared with brute-force full matching of all words over {a,b,A,B,x,\\n} up to length 5 (quick) / 6 (thorough)",
		Timeout: 10 * time.Minute,
	}},
}

type standinResult struct {
	Standin     Standin
	Evaluations int
	Nontrivial  int
	Samples     any
	Failures    []map[string]string
	Err         string
	Secs        float64
}

func runStandin(sd Standin, tier string) standinResult {
	res := standinResult{Standin: sd}
	tmp, err := os.MkdirTemp("", "gvc-standin-")
	if err != nil {
		res.Err = err.Error()
		return res
	}
	defer os.RemoveAll(tmp)
	repl := map[string]string{
		filepath.Join(repoRoot, sd.Pkg, "zz_gvc_standin_test.go"): filepath.Join(verifRoot, "standins", sd.TestFile),
	}
	// further files the test build needs replaced (path inside the repository -> file under /verif/standins)
	for in, by := range sd.Extra {
		repl[filepath.Join(repoRoot, in)] = filepath.Join(verifRoot, "standins", by)
	}
	ov := map[string]any{"Replace": repl}
	ovData, _ := json.Marshal(ov)
	ovPath := filepath.Join(tmp, "overlay.json")
	os.WriteFile(ovPath, ovData, 0o644)
	out := filepath.Join(tmp, "out.json")
	timeout := sd.Timeout
	if tier == "thorough" {
		timeout *= 5 // the thorough bounds are 5-12 times larger
	}
	cmd := exec.Command("go", "test", "-overlay", ovPath, "-vet=off", "-count=1", "-timeout", fmt.Sprintf("%ds", int(timeout.Seconds())), "-run", "^"+sd.TestName+"$", "./"+sd.Pkg)
	cmd.Dir = repoRoot
	env := append(os.Environ(), sd.OutEnv+"="+out)
	if tier == "thorough" {
		env = append(env, sd.EnvThorough...)
	} else {
		env = append(env, sd.EnvQuick...)
	}
	if s := os.Getenv("VERIF_SEED"); s != "" {
		env = append(env, "STANDIN_SEED="+s)
	}
	cmd.Env = env
	t0 := time.Now()
	b, err := cmd.CombinedOutput()
	res.Secs = time.Since(t0).Seconds()
	data, rerr := os.ReadFile(out)
	if rerr != nil {
		res.Err = fmt.Sprintf("stand-in produced no result (%v): %s", err, truncate(string(b), 2000))
		return res
	}
	var parsed struct {
		Evaluations int                 `json:"evaluations"`
		Nontrivial  int                 `json:"nontrivial"`
		Samples     any                 `json:"samples"`
		Failures    []map[string]any `json:"failures"`
		Inflight    json.RawMessage  `json:"inflight"`
	}
	if jerr := json.Unmarshal(data, &parsed); jerr != nil {
		res.Err = "bad stand-in output: " + jerr.Error()
		return res
	}
	res.Evaluations, res.Nontrivial, res.Samples = parsed.Evaluations, parsed.Nontrivial, parsed.Samples
	for _, f := range parsed.Failures {
		m := map[string]string{}
		for k, v := range f {
			if sv, ok := v.(string); ok {
				m[k] = sv
			} else {
				b, _ := json.Marshal(v)
				m[k] = string(b)
			}
		}
		res.Failures = append(res.Failures, m)
	}
	if err != nil && len(parsed.Failures) == 0 {
		if len(parsed.Inflight) > 0 && string(parsed.Inflight) != "null" {
			// the test binary died while this input was being run: report the input
			outp := strings.TrimSpace(string(b))
			if i := strings.Index(outp, "panic:"); i >= 0 {
				outp = outp[i:]
			}
			res.Failures = append(res.Failures, map[string]string{"class": "crash", "input": string(parsed.Inflight), "detail": "the process died while running this sequence: " + truncate(outp, 600)})
		} else {
			res.Err = "stand-in test failed: " + truncate(strings.TrimSpace(string(b)), 2000)
		}
	}
	return res
}
