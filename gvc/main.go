package main

import (
	"encoding/json"
	"flag"
	"fmt"
	"go/types"
	"os"
	"path/filepath"
	"regexp"
	"runtime"
	"sort"
	"strings"
	"time"

	"golang.org/x/tools/go/packages"
	"golang.org/x/tools/go/ssa"
	"golang.org/x/tools/go/ssa/ssautil"
)

type PkgCtx struct {
	stdPure map[string]*FuncContract // synthesized empty contracts of pure standard library functions
	prog      *ssa.Program
	spkg      *ssa.Package
	tpkg      *types.Package
	contracts *Contracts
	bvKinds   map[types.BasicKind]bool
	funcs     map[string]*ssa.Function
	logged    map[string]bool // callees whose call results are recorded in ghost logs
	dir       string
	path      string
}

var repoRoot = envOr("GVC_REPO", "/repo")

func envOr(k, d string) string {
	if v := os.Getenv(k); v != "" {
		return v
	}
	return d
}

func loadPackages(patterns []string) ([]*PkgCtx, error) {
	cfg := &packages.Config{Mode: packages.LoadAllSyntax, Dir: repoRoot, BuildFlags: []string{"-tags=verif"}}
	pkgs, err := packages.Load(cfg, patterns...)
	if err != nil {
		return nil, err
	}
	var errs []string
	packages.Visit(pkgs, nil, func(p *packages.Package) {
		for _, e := range p.Errors {
			errs = append(errs, e.Error())
		}
	})
	if len(errs) > 0 {
		return nil, fmt.Errorf("package errors: %s", strings.Join(errs, "; "))
	}
	prog, spkgs := ssautil.AllPackages(pkgs, ssa.NaiveForm|ssa.GlobalDebug|ssa.InstantiateGenerics)
	prog.Build()
	all := ssautil.AllFunctions(prog)
	var out []*PkgCtx
	for i, sp := range spkgs {
		if sp == nil {
			continue
		}
		pk := &PkgCtx{prog: prog, spkg: sp, tpkg: sp.Pkg, funcs: map[string]*ssa.Function{}, path: pkgs[i].PkgPath}
		if len(pkgs[i].GoFiles) > 0 {
			pk.dir = filepath.Dir(pkgs[i].GoFiles[0])
		}
		for f := range all {
			if f.Pkg == sp && f.Synthetic == "" {
				pk.funcs[f.RelString(sp.Pkg)] = f
			}
		}
		cs, err := loadContracts(pk.dir)
		if err != nil {
			return nil, err
		}
		pk.contracts = cs
		pk.bvKinds = cs.BVKinds
		pk.logged = cs.Logged
		out = append(out, pk)
	}
	return out, nil
}

// axiomsInto evaluates all axioms (and lemmas, which are proved separately)
// as assumptions of st.
func (pk *PkgCtx) axiomsInto(st *State, upto *Lemma, uses []string) []string {
	var errs []string
	want := map[string]bool{}
	for _, u := range uses {
		want[u] = true
	}
	for _, l := range pk.contracts.Lemmas {
		if l == upto {
			break
		}
		if !want[l.Name] {
			continue
		}
		delete(want, l.Name)
		env := &SpecEnv{st: st, old: st, vars: map[string]Val{}}
		var t Term
		if l.Induct != "" {
			// proved by induction: usable for every n >= 0
			bn := st.c.boundName(l.Induct)
			env.vars[l.Induct] = Scalar{Term{bn, SInt}, types.Typ[types.Int]}
			body := env.boolTerm(l.Cl.Expr)
			t = mkForall(fmt.Sprintf("(%s Int)", bn), tImplies(tAnd(tLe(intLit(0), Term{bn, SInt}), tLe(Term{bn, SInt}, bigLit(pow2(63)))), body))
		} else {
			t = env.boolTerm(l.Cl.Expr)
		}
		if env.err != nil {
			errs = append(errs, fmt.Sprintf("%s: %s: %v", l.Cl.Line, l.Name, env.err))
			continue
		}
		st.assume(t)
	}
	for u := range want {
		errs = append(errs, "use: unknown axiom or lemma "+u)
	}
	return errs
}

type FuncReport struct {
	Key         string
	Prop        string
	Obls        []*Obligation
	Aborted     string
	Unsupported []string
	Assumed     []string
	SpecErrs    []string
	Paths       int
	Trusted     bool
}

func (pk *PkgCtx) verifyFunc(key string, con *FuncContract) *FuncReport {
	rep := &FuncReport{Key: key, Prop: con.Prop, Trusted: con.Trusted}
	// several region contracts may be attached to one function: KEY@region:NAME
	fnKey := key
	if i := strings.Index(key, "@region:"); i >= 0 {
		fnKey = key[:i]
	}
	fn := pk.funcs[fnKey]
	if fn == nil {
		rep.Aborted = "drift: function not found in package " + pk.path
		o := &Obligation{Name: key + "/drift", Func: key, Kind: "drift", Prop: con.Prop, Text: "function under contract exists", Where: con.Line}
		o.Instances = []*Instance{{Verdict: "unknown", Output: "function " + key + " no longer exists"}}
		rep.Obls = append(rep.Obls, o)
		return rep
	}
	if con.Trusted {
		return rep
	}
	fx := newFuncExec(pk, fn, key, con)
	// axioms and proved lemmas are available in every function context
	fx.preAxioms = true
	fx.run()
	rep.Aborted = fx.aborted
	rep.Paths = fx.paths
	if con.NoSafety {
		fx.c.unsup("run-time checks (index, nil, division) are assumed to pass in this function (nosafety): only the stated clauses are proved")
	}
	rep.SpecErrs = fx.specErrs
	for u := range fx.c.unsupported {
		rep.Unsupported = append(rep.Unsupported, u)
	}
	for a := range fx.c.assumed {
		rep.Assumed = append(rep.Assumed, a)
	}
	sort.Strings(rep.Unsupported)
	sort.Strings(rep.Assumed)
	for _, n := range fx.oblOrder {
		rep.Obls = append(rep.Obls, fx.obls[n])
	}
	// loops named in the contract must exist
	for n := range con.Loops {
		if n < 1 || n > len(fx.loops) {
			o := &Obligation{Name: fmt.Sprintf("%s/drift loop#%d", key, n), Func: key, Kind: "drift", Prop: con.Prop, Text: "loop named by the contract exists", Where: con.Line}
			o.Instances = []*Instance{{Verdict: "unknown", Output: fmt.Sprintf("function has %d loops", len(fx.loops))}}
			rep.Obls = append(rep.Obls, o)
		}
	}
	if rep.Aborted != "" || len(rep.SpecErrs) > 0 {
		o := &Obligation{Name: key + "/engine", Func: key, Kind: "engine", Prop: con.Prop, Text: "function could be translated", Where: con.Line}
		o.Instances = []*Instance{{Verdict: "unknown", Output: rep.Aborted + " " + strings.Join(rep.SpecErrs, "; ")}}
		rep.Obls = append(rep.Obls, o)
	}
	return rep
}

func (pk *PkgCtx) verifyLemmas() *FuncReport {
	rep := &FuncReport{Key: "lemmas"}
	for _, l := range pk.contracts.Lemmas {
		if l.Axiom {
			continue
		}
		c := &VCtx{pkg: pk}
		st := &State{c: c, objs: map[ObjID]Val{}, regs: map[ssa.Value]Val{}}
		errs := pk.axiomsInto(st, l, l.Uses)
		o := &Obligation{Name: "lemma " + l.Name, Func: "lemmas", Kind: "lemma", Prop: l.Prop, Text: l.Cl.Text, Where: l.Cl.Line}
		if l.Induct != "" {
			// base: P(0); step: P(n) => P(n+1) for a fresh n >= 0
			intT := types.Typ[types.Int]
			env := &SpecEnv{st: st, old: st, vars: map[string]Val{l.Induct: Scalar{intLit(0), intT}}}
			base := env.boolTerm(l.Cl.Expr)
			n := c.fresh(l.Induct, SInt)
			env2 := &SpecEnv{st: st, old: st, vars: map[string]Val{l.Induct: Scalar{n, intT}}}
			hyp := env2.boolTerm(l.Cl.Expr)
			env3 := &SpecEnv{st: st, old: st, vars: map[string]Val{l.Induct: Scalar{tAdd(n, intLit(1)), intT}}}
			concl := env3.boolTerm(l.Cl.Expr)
			for _, e := range []*SpecEnv{env, env2, env3} {
				if e.err != nil {
					errs = append(errs, fmt.Sprintf("%s: %v", l.Cl.Line, e.err))
				}
			}
			if len(errs) == 0 {
				o.Text = "by induction on " + l.Induct + ": " + o.Text
				o.Instances = append(o.Instances, &Instance{Assumps: st.pc, Goal: base, Decls: c.decls, Path: "base"})
				// finite induction over 0 <= n <= 2^63 (the range of int plus one): the step may assume n < 2^63
				stepAss := append(append([]Term(nil), st.pc...), tLe(intLit(0), n), tLt(n, bigLit(pow2(63))), hyp)
				for _, g := range splitGoal(concl, 6) {
					o.Instances = append(o.Instances, &Instance{Assumps: stepAss, Goal: g, Decls: c.decls, Path: "step"})
				}
			}
		} else {
			env := &SpecEnv{st: st, old: st, vars: map[string]Val{}}
			t := env.boolTerm(l.Cl.Expr)
			if env.err != nil {
				errs = append(errs, fmt.Sprintf("%s: %v", l.Cl.Line, env.err))
			}
			if len(errs) == 0 {
				o.Instances = []*Instance{{Assumps: st.pc, Goal: t, Decls: c.decls}}
			}
		}
		if len(errs) > 0 {
			o.Instances = []*Instance{{Verdict: "unknown", Output: strings.Join(errs, "; ")}}
			rep.SpecErrs = append(rep.SpecErrs, errs...)
		}
		rep.Obls = append(rep.Obls, o)
	}
	return rep
}

func main() {
	if len(os.Args) < 2 {
		fmt.Fprintln(os.Stderr, "usage: gvc verify|check ...")
		os.Exit(2)
	}
	switch os.Args[1] {
	case "verify":
		cmdVerify(os.Args[2:])
	case "check":
		cmdCheck(os.Args[2:])
	case "replay":
		// re-run the stored counterexample of a violation file on /repo's current working tree
		if len(os.Args) < 3 {
			fmt.Fprintln(os.Stderr, "usage: gvc replay <replay file>")
			os.Exit(2)
		}
		data, err := os.ReadFile(os.Args[2])
		if err != nil {
			fmt.Fprintln(os.Stderr, err)
			os.Exit(2)
		}
		var payload map[string]any
		if err := json.Unmarshal(data, &payload); err != nil {
			fmt.Fprintln(os.Stderr, err)
			os.Exit(2)
		}
		fmt.Printf("obligation: %v\nstatus: %v\n", payload["obligation"], payload["status"])
		rp, _ := payload["replay"].(map[string]any)
		src, _ := rp["go_test"].(string)
		dir, _ := rp["package_dir"].(string)
		if src == "" || dir == "" {
			if in, ok := payload["input"]; ok {
				fmt.Printf("failing input of the bounded stand-in: %v\nre-run the check to execute it: ./check %v quick\n", in, payload["property"])
			} else {
				fmt.Printf("no executable counterexample is stored for this violation (%v); the file carries the failed obligation and the solver output\n", rp["reason"])
			}
			os.Exit(1)
		}
		res, errText := runReplay(dir, src)
		if res == nil {
			fmt.Println("replay could not run:", errText)
			os.Exit(2)
		}
		out, _ := json.MarshalIndent(res, "", " ")
		fmt.Println(string(out))
		panicked, _ := res["panic"].(string)
		expectPanic, _ := rp["expect_panic"].(bool)
		if (expectPanic && panicked != "") || (!expectPanic && panicked == "" && sameStrings(res["got"], res["want"]) && sameStrings(res["got_final"], res["want_final"])) {
			fmt.Println("REPRODUCED: the real code behaves as the counterexample says")
			os.Exit(1)
		}
		fmt.Println("not reproduced on the current tree")
		os.Exit(0)
	case "funcs":
		pks, err := loadPackages(os.Args[2:3])
		if err != nil {
			fmt.Fprintln(os.Stderr, err)
			os.Exit(2)
		}
		var re *regexp.Regexp
		if len(os.Args) > 3 {
			re = regexp.MustCompile(os.Args[3])
		}
		for _, pk := range pks {
			var keys []string
			for k := range pk.funcs {
				keys = append(keys, k)
			}
			sort.Strings(keys)
			for _, k := range keys {
				if re != nil && !re.MatchString(k) {
					continue
				}
				f := pk.funcs[k]
				fx := newFuncExec(pk, f, k, nil)
				if len(f.Blocks) > 0 {
					fx.analyse()
				}
				pos := pk.prog.Fset.Position(f.Pos())
				fmt.Printf("%-50s %s:%d loops=%d blocks=%d\n", k, filepath.Base(pos.Filename), pos.Line, len(fx.loops), len(f.Blocks))
				if len(os.Args) > 4 {
					for _, li := range fx.loops {
						fmt.Printf("    loop#%d header b%d line %d\n", li.ord, li.header.Index, pk.prog.Fset.Position(fx.headerPos(li)).Line)
					}
					for _, b := range f.Blocks {
						for _, in := range b.Instrs {
							switch in.(type) {
							case *ssa.Return:
								ln := 0
								for i := len(b.Instrs) - 1; i >= 0 && ln == 0; i-- {
									ln = pk.prog.Fset.Position(b.Instrs[i].Pos()).Line
								}
								fmt.Printf("    return#%d b%d near line %d\n", fx.siteOrd[in], b.Index, ln)
							case *ssa.Call:
								fmt.Printf("    call %s b%d line %d\n", fx.callOrd[in], b.Index, pk.prog.Fset.Position(in.Pos()).Line)
							}
						}
					}
				}
			}
		}
	default:
		fmt.Fprintln(os.Stderr, "unknown command", os.Args[1])
		os.Exit(2)
	}
}

// cmdVerify: developer command. gvc verify [-f regex] [-v] [-t secs] pkg...
func cmdVerify(args []string) {
	fs := flag.NewFlagSet("verify", flag.ExitOnError)
	fre := fs.String("f", "", "only functions matching this regexp")
	verbose := fs.Bool("v", false, "list every obligation")
	tsec := fs.Int("t", 10, "solver timeout per query (s)")
	keep := fs.String("keep", "", "keep SMT files in this directory")
	fs.Parse(args)
	t0 := time.Now()
	pks, err := loadPackages(fs.Args())
	if err != nil {
		fmt.Fprintln(os.Stderr, "load:", err)
		os.Exit(2)
	}
	fmt.Printf("loaded in %.1fs\n", time.Since(t0).Seconds())
	var re *regexp.Regexp
	if *fre != "" {
		re = regexp.MustCompile(*fre)
	}
	tmp, _ := os.MkdirTemp("", "gvc-")
	defer os.RemoveAll(tmp)
	cfg := &SolverCfg{Timeout: time.Duration(*tsec) * time.Second, Quick: 3 * time.Second, Workers: runtime.NumCPU(), TmpDir: tmp}
	if *keep != "" {
		os.MkdirAll(*keep, 0o755)
		cfg.TmpDir = *keep
		cfg.KeepSMT = true
	}
	bad := 0
	for _, pk := range pks {
		var reps []*FuncReport
		var keys []string
		for k := range pk.contracts.Funcs {
			keys = append(keys, k)
		}
		sort.Strings(keys)
		for _, k := range keys {
			if re != nil && !re.MatchString(k) {
				continue
			}
			reps = append(reps, pk.verifyFunc(k, pk.contracts.Funcs[k]))
		}
		if re == nil || re.MatchString("lemmas") {
			reps = append(reps, pk.verifyLemmas())
		}
		var all []*Obligation
		for _, r := range reps {
			all = append(all, r.Obls...)
		}
		t1 := time.Now()
		solveAll(all, cfg)
		fmt.Printf("== %s: %d functions, %d obligations, solved in %.1fs\n", pk.path, len(reps), len(all), time.Since(t1).Seconds())
		for _, r := range reps {
			nd := 0
			for _, o := range r.Obls {
				if o.status() == "discharged" {
					nd++
				}
			}
			fmt.Printf("-- %s [%s]: %d/%d discharged, paths=%d %s\n", r.Key, r.Prop, nd, len(r.Obls), r.Paths, r.Aborted)
			seenErr := map[string]bool{}
			for _, e := range r.SpecErrs {
				if !seenErr[e] && len(seenErr) < 8 {
					fmt.Println("   SPEC ERROR:", e)
				}
				seenErr[e] = true
			}
			for _, u := range r.Unsupported {
				fmt.Println("   unsupported:", u)
			}
			if *verbose {
				for _, a := range r.Assumed {
					fmt.Println("   assumed:", a)
				}
			}
			for _, o := range r.Obls {
				s := o.status()
				if s != "discharged" {
					bad++
				}
				if *verbose || s != "discharged" {
					var secs float64
					sv := map[string]bool{}
					for _, in := range o.Instances {
						secs += in.Secs
						sv[in.Solver] = true
					}
					fmt.Printf("   %-10s %-50s inst=%d %.2fs %v  %s\n", s, o.Name, len(o.Instances), secs, keysOf(sv), o.Text)
					if s != "discharged" {
						shown := 0
						for _, in := range o.Instances {
							if shown >= 2 {
								break
							}
							if in.Verdict != "unsat" || o.Cover {
								shown++
								g := in.Goal.S
								if len(g) > 300 {
									g = g[:300] + "..."
								}
								fmt.Printf("       path %s: %s %s %s\n         goal: %s\n", in.Path, in.Verdict, firstLine(in.Output), in.File, g)
							}
						}
					}
				}
			}
		}
	}
	fmt.Printf("total %.1fs, undischarged=%d\n", time.Since(t0).Seconds(), bad)
	if bad > 0 {
		os.RemoveAll(tmp) // deferred calls do not run on os.Exit
		os.Exit(1)
	}
}

func keysOf(m map[string]bool) []string {
	var ks []string
	for k := range m {
		ks = append(ks, k)
	}
	sort.Strings(ks)
	return ks
}

