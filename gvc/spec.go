package main

import (
	"fmt"
	"go/ast"
	"go/constant"
	"go/token"
	"go/types"
	"math/big"
	"strconv"
	"strings"
)

// SpecEnv evaluates contract expressions against a symbolic state.
type SpecEnv struct {
	st    *State
	old   *State
	vars  map[string]Val
	fx    *FuncExec // program-variable lookup (nil when evaluating a callee contract at a call site)
	pos   token.Pos
	inOld bool
	loopSnap map[int]*State
	callRes  map[string]Val
	lvFx     *FuncExec // resolves captured variables in modifies clauses
	depth int
	err   error
}

func (e *SpecEnv) fail(format string, a ...any) Val {
	if e.err == nil {
		e.err = fmt.Errorf(format, a...)
	}
	return Scalar{e.st.c.fresh("specerr", SBool), types.Typ[types.Bool]}
}

func (e *SpecEnv) with(vars map[string]Val) *SpecEnv {
	n := *e
	n.vars = map[string]Val{}
	for k, v := range e.vars {
		n.vars[k] = v
	}
	for k, v := range vars {
		n.vars[k] = v
	}
	return &n
}

func (e *SpecEnv) boolTerm(x ast.Expr) Term {
	had := e.err != nil
	v := e.eval(x)
	if e.err != nil && !had {
		// never emit a partially translated clause
		return e.st.c.fresh("specerr", SBool)
	}
	if sc, ok := v.(Scalar); ok && sc.T.Sort == SBool {
		return sc.T
	}
	e.fail("expression %s is not boolean (%T)", exprString(x), v)
	return tTrue
}

func exprString(x ast.Expr) string { return types.ExprString(x) }

func (e *SpecEnv) cur() *State {
	if e.inOld {
		return e.old
	}
	return e.st
}

func (e *SpecEnv) eval(x ast.Expr) Val {
	st := e.st
	switch x := x.(type) {
	case *ast.ParenExpr:
		return e.eval(x.X)
	case *ast.BasicLit:
		switch x.Kind {
		case token.INT:
			n, ok := new(big.Int).SetString(x.Value, 0)
			if !ok {
				return e.fail("bad int literal %s", x.Value)
			}
			return ConstV{n}
		case token.CHAR:
			r, _, _, err := strconv.UnquoteChar(x.Value[1:len(x.Value)-1], '\'')
			if err != nil {
				return e.fail("bad char literal")
			}
			return ConstV{big.NewInt(int64(r))}
		case token.STRING:
			sv, err := strconv.Unquote(x.Value)
			if err != nil {
				return e.fail("bad string literal")
			}
			return Scalar{st.c.strConst(sv), types.Typ[types.String]}
		}
		return e.fail("unsupported literal %s", x.Value)
	case *ast.Ident:
		return e.ident(x.Name)
	case *ast.UnaryExpr:
		v := e.eval(x.X)
		return st.unop(x.Op, v, true)
	case *ast.StarExpr:
		v := e.eval(x.X)
		if p, ok := v.(PtrV); ok {
			if lv, ok := e.cur().load(p); ok {
				return lv
			}
		}
		return e.fail("cannot dereference %s", exprString(x.X))
	case *ast.BinaryExpr:
		if x.Op == token.LAND || x.Op == token.LOR {
			a, b := e.boolTerm(x.X), e.boolTerm(x.Y)
			if x.Op == token.LAND {
				return Scalar{tAnd(a, b), types.Typ[types.Bool]}
			}
			return Scalar{tOr(a, b), types.Typ[types.Bool]}
		}
		a, b := e.eval(x.X), e.eval(x.Y)
		return st.binop(x.Op, a, b, true)
	case *ast.SelectorExpr:
		// package-qualified constant?
		if id, ok := x.X.(*ast.Ident); ok {
			if _, bound := e.vars[id.Name]; !bound && e.fx != nil {
				if v, ok := e.pkgQualified(id.Name, x.Sel.Name); ok {
					return v
				}
			}
		}
		v := e.eval(x.X)
		return e.field(v, x.Sel.Name, x)
	case *ast.IndexExpr:
		v := e.eval(x.X)
		i := e.eval(x.Index)
		return e.index(v, i, x)
	case *ast.SliceExpr:
		v := e.eval(x.X)
		if sq, ok := v.(SeqV); ok && sq.N.S != "" {
			// slicing an array value: read-only view
			oid := st.c.newObj()
			st.objs[oid] = sq
			e.cur().objs[oid] = sq
			v = SliceV{Arr: oid, Off: intLit(0), Len: sq.N, Cap: sq.N, Nil: tFalse, Typ: types.NewSlice(elemTypeOfSeq(sq))}
		}
		sl, ok := v.(SliceV)
		if !ok {
			return e.fail("slice expression on %T", v)
		}
		lo := intLit(0)
		hi := sl.Len
		if x.Low != nil {
			lo = e.intTerm(x.Low)
		}
		if x.High != nil {
			hi = e.intTerm(x.High)
		}
		return SliceV{Arr: sl.Arr, Off: tAdd(sl.Off, lo), Len: tSub(hi, lo), Cap: tSub(sl.Cap, lo), Nil: tFalse, Typ: sl.Typ}
	case *ast.TypeAssertExpr:
		v := e.eval(x.X)
		iv, ok := v.(IfaceV)
		if !ok || iv.Dyn == nil {
			return e.fail("type assertion on a value whose dynamic type is not known: %s", exprString(x))
		}
		want := exprString(x.Type)
		have := types.TypeString(iv.Dyn, func(p *types.Package) string { return "" })
		if strings.TrimPrefix(have, ".") != want && have != want && strings.ReplaceAll(have, "*.", "*") != want {
			return e.fail("type assertion %s: dynamic type is %s", exprString(x), have)
		}
		return iv.V
	case *ast.CallExpr:
		return e.call(x)
	}
	return e.fail("unsupported spec expression %s (%T)", exprString(x), x)
}

func (e *SpecEnv) intTerm(x ast.Expr) Term {
	had := e.err != nil
	v := e.eval(x)
	if e.err != nil && !had {
		return e.st.c.fresh("specerr", SInt)
	}
	switch y := v.(type) {
	case ConstV:
		return bigLit(y.N)
	case Scalar:
		if y.T.Sort == SInt {
			return y.T
		}
		if _, ok := isBV(y.T.Sort); ok {
			return e.st.toIntSpec(y).T
		}
	}
	e.fail("expression %s is not an integer", exprString(x))
	return intLit(0)
}

func (c *VCtx) strConst(s string) Term {
	if s == "" {
		return Term{"str_empty", SStr}
	}
	if c.strConsts == nil {
		c.strConsts = map[string]Term{}
	}
	if t, ok := c.strConsts[s]; ok {
		return t
	}
	t := c.fresh(fmt.Sprintf("str_%d", len(c.strConsts)), SStr)
	// distinct from earlier constants, known length
	c.decls = append(c.decls, fmt.Sprintf("(assert (= (strlen %s) %d))", t.S, len(s)))
	if len(s) <= 64 {
		for i := 0; i < len(s); i++ {
			c.decls = append(c.decls, fmt.Sprintf("(assert (= (str_at %s %d) %d))", t.S, i, s[i]))
		}
	}
	for o, ot := range c.strConsts {
		if o != s {
			c.decls = append(c.decls, fmt.Sprintf("(assert (not (= %s %s)))", t.S, ot.S))
		}
	}
	c.strConsts[s] = t
	return t
}

func (e *SpecEnv) ident(name string) Val {
	st := e.st
	if v, ok := e.vars[name]; ok {
		return v
	}
	switch name {
	case "true":
		return Scalar{tTrue, types.Typ[types.Bool]}
	case "false":
		return Scalar{tFalse, types.Typ[types.Bool]}
	case "nil":
		return Scalar{Term{"ref_nil", SRef}, types.Typ[types.UntypedNil]}
	case "inf":
		return e.fail("inf is only allowed as a quantifier bound")
	}
	if e.fx != nil {
		if e.inOld {
			if v, ok := e.fx.paramEntry[name]; ok {
				return v
			}
		}
		if v, ok := e.fx.lookupVar(name, e.pos, e.cur()); ok {
			return v
		}
		if v, ok := e.fx.paramEntry[name]; ok {
			return v
		}
		// package-level constant
		if obj := e.fx.fn.Pkg.Pkg.Scope().Lookup(name); obj != nil {
			if c, ok := obj.(*types.Const); ok {
				return constVal(st, c.Val(), c.Type())
			}
		}
	}
	if pk := st.c.pkg; pk != nil && pk.tpkg != nil {
		if obj := pk.tpkg.Scope().Lookup(name); obj != nil {
			if c, ok := obj.(*types.Const); ok {
				return constVal(st, c.Val(), c.Type())
			}
		}
	}
	return e.fail("unknown identifier %s", name)
}

func (e *SpecEnv) pkgQualified(pkgName, sel string) (Val, bool) {
	for _, imp := range e.fx.fn.Pkg.Pkg.Imports() {
		if imp.Name() == pkgName {
			if obj := imp.Scope().Lookup(sel); obj != nil {
				if c, ok := obj.(*types.Const); ok {
					return constVal(e.st, c.Val(), c.Type()), true
				}
			}
		}
	}
	return nil, false
}

func constVal(st *State, cv constant.Value, t types.Type) Val {
	p := st.c.pkg
	switch cv.Kind() {
	case constant.Bool:
		if constant.BoolVal(cv) {
			return Scalar{tTrue, t}
		}
		return Scalar{tFalse, t}
	case constant.Int:
		n, ok := new(big.Int).SetString(cv.ExactString(), 10)
		if !ok {
			break
		}
		if b, ok := t.Underlying().(*types.Basic); ok && b.Info()&types.IsUntyped != 0 {
			return ConstV{n}
		}
		if ii, ok := p.intInfo(t); ok {
			if ii.bv {
				return Scalar{bvLit(n, ii.bits), t}
			}
			return Scalar{bigLit(n), t}
		}
		// integer constant converted to float etc.
		return ConstV{n}
	case constant.String:
		return Scalar{st.c.strConst(constant.StringVal(cv)), t}
	}
	if b, ok := t.Underlying().(*types.Basic); ok && b.Kind() == types.UntypedNil {
		return Scalar{Term{"ref_nil", SRef}, t}
	}
	return st.freshVal(t, "const", 0)
}

// fieldPath: the field indices that lead to `name` in struct type t, directly or through embedded structs.
func fieldPath(t types.Type, name string) ([]int, bool) {
	st, ok := t.Underlying().(*types.Struct)
	if !ok {
		return nil, false
	}
	for i := 0; i < st.NumFields(); i++ {
		if st.Field(i).Name() == name {
			return []int{i}, true
		}
	}
	for i := 0; i < st.NumFields(); i++ {
		if st.Field(i).Embedded() {
			if sub, ok := fieldPath(st.Field(i).Type(), name); ok {
				return append([]int{i}, sub...), true
			}
		}
	}
	return nil, false
}

func (e *SpecEnv) field(v Val, name string, x ast.Expr) Val {
	if p, ok := v.(PtrV); ok && isHeapPtr(p) {
		// a field of a heap object: read just that field
		p, _ = e.cur().resolve(p)
		et, _, rest := heapPath(p.Root, "", p.Path)
		if len(rest) == 0 {
			if fp, ok := fieldPath(et, name); ok {
				np := PtrV{Sym: p.Sym, Root: p.Root, Path: append([]Step(nil), p.Path...)}
				for _, f := range fp {
					np.Path = append(np.Path, Step{Field: f})
				}
				if lv, ok := e.cur().load(np); ok {
					return lv
				}
			}
		}
	}
	if p, ok := v.(PtrV); ok {
		lv, ok := e.cur().load(p)
		if !ok {
			return e.fail("cannot load through %s", exprString(x))
		}
		v = lv
	}
	sv, ok := v.(StructV)
	if !ok {
		return e.fail("field %s of non-struct %T in %s", name, v, exprString(x))
	}
	st, ok := sv.Typ.Underlying().(*types.Struct)
	if !ok {
		return e.fail("field %s: not a struct type", name)
	}
	for i := 0; i < st.NumFields(); i++ {
		if st.Field(i).Name() == name {
			return sv.F[i]
		}
	}
	// promoted through embedded fields
	for i := 0; i < st.NumFields(); i++ {
		if st.Field(i).Embedded() {
			if _, ok := sv.F[i].(StructV); ok {
				sub := &SpecEnv{}
				*sub = *e
				save := sub.err
				r := sub.field(sv.F[i], name, x)
				if sub.err == save {
					return r
				}
			}
		}
	}
	return e.fail("no field %s in %s", name, sv.Typ)
}

func (e *SpecEnv) index(v, i Val, x ast.Expr) Val {
	st := e.cur()
	idx := func() Term {
		switch y := i.(type) {
		case ConstV:
			return bigLit(y.N)
		case Scalar:
			if y.T.Sort == SInt {
				return y.T
			}
			if _, ok := isBV(y.T.Sort); ok {
				return e.st.toIntSpec(y).T
			}
		}
		e.fail("index is not an integer in %s", exprString(x))
		return intLit(0)
	}
	switch a := v.(type) {
	case SliceV:
		if a.Arr == 0 {
			// nil slice: every index is out of range; the value is unconstrained
			et := a.Typ.Underlying().(*types.Slice).Elem()
			return e.st.treeSelect(e.st.c.pkg.seqTreeOf(e.st.c, et, "nilelem", false), idx())
		}
		seq, ok := st.objs[a.Arr].(SeqV)
		if !ok {
			return e.fail("slice without backing array in %s", exprString(x))
		}
		return e.st.treeSelect(seq.Tree, tAdd(a.Off, idx()))
	case SeqV:
		return e.st.treeSelect(a.Tree, idx())
	case PtrV:
		if lv, ok := st.load(a); ok {
			return e.index(lv, i, x)
		}
	case MapV:
		k := e.st.toLeaf(i, "")
		return e.st.mapSelect(a, k)
	case Scalar:
		if a.T.Sort == SStr {
			return Scalar{app(SInt, "str_at", a.T, idx()), types.Typ[types.Uint8]}
		}
	}
	return e.fail("cannot index %T in %s", v, exprString(x))
}

func (s *State) mapSelect(m MapV, k Term) Val {
	return s.treeKSelect(m.Vals, k)
}

func (s *State) treeKSelect(tr SeqTreeK, k Term) Val {
	if tr.Fields != nil || isStruct(tr.Typ) {
		sv := StructV{Typ: tr.Typ}
		for _, f := range tr.Fields {
			sv.F = append(sv.F, s.treeKSelect(f, k))
		}
		return sv
	}
	es := tr.Arr.Sort[strings.LastIndex(tr.Arr.Sort[:len(tr.Arr.Sort)-1], " ")+1 : len(tr.Arr.Sort)-1]
	return s.fromLeaf(app(es, "select", tr.Arr, k), tr.Typ)
}

func (e *SpecEnv) call(x *ast.CallExpr) Val {
	st := e.st
	boolT := types.Typ[types.Bool]
	name := ""
	switch f := x.Fun.(type) {
	case *ast.Ident:
		name = f.Name
	case *ast.ArrayType, *ast.StarExpr, *ast.SelectorExpr, *ast.ParenExpr:
		name = exprString(x.Fun)
	}
	switch name {
	case "len", "cap":
		v := e.eval(x.Args[0])
		switch a := v.(type) {
		case SliceV:
			if name == "cap" {
				return Scalar{a.Cap, types.Typ[types.Int]}
			}
			return Scalar{a.Len, types.Typ[types.Int]}
		case SeqV:
			return Scalar{a.N, types.Typ[types.Int]}
		case MapV:
			return Scalar{a.Len, types.Typ[types.Int]}
		case Scalar:
			if a.T.Sort == SStr {
				return Scalar{app(SInt, "strlen", a.T), types.Typ[types.Int]}
			}
		case PtrV:
			if lv, ok := e.cur().load(a); ok {
				if sq, ok := lv.(SeqV); ok {
					return Scalar{sq.N, types.Typ[types.Int]}
				}
			}
		}
		return e.fail("len of %T", v)
	case "old":
		if e.old == nil {
			return e.fail("old() not available here")
		}
		n := *e
		n.inOld = true
		r := n.eval(x.Args[0])
		if n.err != nil && e.err == nil {
			e.err = n.err
		}
		return r
	case "ncalls", "calllog":
		// ncalls("callee"): number of calls so far; calllog("callee", j): the j-th result component of
		// all calls so far, as a sequence indexed by call number
		lit, ok := x.Args[0].(*ast.BasicLit)
		if !ok || lit.Kind != token.STRING {
			return e.fail("%s needs a string literal", name)
		}
		cn, _ := strconv.Unquote(lit.Value)
		lg, ok := e.cur().logs[cn]
		if !ok {
			if name == "ncalls" {
				return Scalar{intLit(0), types.Typ[types.Int]}
			}
			return e.fail("calllog: no call to %s is logged here (add `log %s`)", cn, cn)
		}
		if name == "ncalls" {
			return Scalar{lg.Cnt, types.Typ[types.Int]}
		}
		j := 0
		if len(x.Args) > 1 {
			if jv, ok := e.eval(x.Args[1]).(ConstV); ok {
				j = int(jv.N.Int64())
			}
		}
		if j >= len(lg.Arrs) || lg.Types[j] == nil {
			return e.fail("calllog: no such result component")
		}
		oid := st.c.newObj()
		seq := SeqV{Tree: SeqTree{Arr: lg.Arrs[j], Typ: lg.Types[j]}, Typ: lg.Types[j]}
		st.objs[oid] = seq
		e.cur().objs[oid] = seq
		return SliceV{Arr: oid, Off: intLit(0), Len: lg.Cnt, Cap: lg.Cnt, Nil: tFalse, Typ: types.NewSlice(lg.Types[j])}
	case "resultof":
		// resultof("callee#k") or resultof("callee#k", i): the value returned by that call on this path
		lit, ok := x.Args[0].(*ast.BasicLit)
		if !ok || lit.Kind != token.STRING {
			return e.fail("resultof needs a string literal")
		}
		name, _ := strconv.Unquote(lit.Value)
		v, ok := e.callRes[name]
		if !ok {
			return e.fail("resultof: call %s has not happened on this path", name)
		}
		if len(x.Args) == 2 {
			iv, ok := e.eval(x.Args[1]).(ConstV)
			tv, ok2 := v.(TupleV)
			if !ok || !ok2 || int(iv.N.Int64()) >= len(tv.E) {
				return e.fail("resultof: bad result index")
			}
			return tv.E[iv.N.Int64()]
		}
		return v
	case "at_loop", "before_loop":
		// at_loop(k, e): value of e when the current iteration of loop k started (at its header)
		// before_loop(k, e): value of e when loop k was entered
		kv, ok := e.eval(x.Args[0]).(ConstV)
		if !ok {
			return e.fail("%s: loop ordinal must be a constant", name)
		}
		key := int(kv.N.Int64())
		if name == "before_loop" {
			key = -key
		}
		if e.loopSnap == nil || e.loopSnap[key] == nil {
			return e.fail("%s: no snapshot for that loop here", name)
		}
		n := *e
		n.st = e.loopSnap[key]
		// evaluate against the snapshot heap; fresh symbols still go to the live context
		r := n.eval(x.Args[1])
		if n.err != nil && e.err == nil {
			e.err = n.err
		}
		return r
	case "implies":
		return Scalar{tImplies(e.boolTerm(x.Args[0]), e.boolTerm(x.Args[1])), boolT}
	case "iff":
		return Scalar{tEq(e.boolTerm(x.Args[0]), e.boolTerm(x.Args[1])), boolT}
	case "ite":
		c := e.boolTerm(x.Args[0])
		a, b := e.eval(x.Args[1]), e.eval(x.Args[2])
		return e.iteVal(c, a, b)
	case "min", "max":
		a, b := e.eval(x.Args[0]), e.eval(x.Args[1])
		lt := st.binop(token.LSS, a, b, true).(Scalar).T
		if name == "max" {
			return e.iteVal(lt, b, a)
		}
		return e.iteVal(lt, a, b)
	case "forall", "exists", "forall_t":
		return e.quant(name, x)
	case "forallkey":
		// forallkey(k, m, body): for every value k of the key type of map m (present in m or not)
		if len(x.Args) != 3 {
			return e.fail("forallkey(k, m, body)")
		}
		id, ok := x.Args[0].(*ast.Ident)
		if !ok {
			return e.fail("quantifier variable must be an identifier")
		}
		mv, ok := e.eval(x.Args[1]).(MapV)
		if !ok {
			return e.fail("forallkey needs a map")
		}
		kt := mv.Typ.Underlying().(*types.Map).Key()
		ks := st.keySort(kt)
		bn := st.c.boundName(id.Name)
		var kv Val
		switch {
		case ks == SRef:
			if _, isPtr := kt.Underlying().(*types.Pointer); !isPtr {
				return e.fail("forallkey: key type %s not supported", kt)
			}
			kv = PtrV{Sym: bn, Typ: kt}
		case ks == SStr:
			kv = Scalar{Term{bn, SStr}, kt}
		default:
			return e.fail("forallkey: key type %s not supported", kt)
		}
		sub := e.with(map[string]Val{id.Name: kv})
		body := sub.boolTerm(x.Args[2])
		if sub.err != nil && e.err == nil {
			e.err = sub.err
		}
		return Scalar{mkForall(fmt.Sprintf("(%s %s)", bn, ks), body), boolT}
	case "forall_slice":
		// forall_slice(elemtype, m, body): for every slice m of that element type
		if len(x.Args) != 3 {
			return e.fail("forall_slice(elemtype, m, body)")
		}
		et := st.c.pkg.resolveType(x.Args[0])
		id, ok := x.Args[1].(*ast.Ident)
		if et == nil || !ok {
			return e.fail("forall_slice: bad element type or variable")
		}
		var binders []string
		var mk func(t types.Type, hint string) (SeqTree, bool)
		mk = func(t types.Type, hint string) (SeqTree, bool) {
			if stt, ok := t.Underlying().(*types.Struct); ok {
				tr := SeqTree{Typ: t}
				for i := 0; i < stt.NumFields(); i++ {
					sub, ok := mk(stt.Field(i).Type(), hint+"_"+stt.Field(i).Name())
					if !ok {
						return tr, false
					}
					tr.Fields = append(tr.Fields, sub)
				}
				return tr, true
			}
			es := st.c.pkg.scalarSort(t)
			if es == "" {
				return SeqTree{}, false
			}
			an := st.c.boundName(hint + "_arr")
			binders = append(binders, fmt.Sprintf("(%s %s)", an, arrSort(es)))
			return SeqTree{Arr: Term{an, arrSort(es)}, Typ: t}, true
		}
		tree, ok := mk(et, id.Name)
		if !ok {
			return e.fail("forall_slice: unsupported element type")
		}
		on, ln := st.c.boundName(id.Name+"_off"), st.c.boundName(id.Name+"_len")
		oid := st.c.newObj()
		seq := SeqV{Tree: tree, Typ: et}
		st.objs[oid] = seq
		if e.old != nil {
			e.old.objs[oid] = seq
		}
		sl := SliceV{Arr: oid, Off: Term{on, SInt}, Len: Term{ln, SInt}, Cap: Term{ln, SInt}, Nil: tFalse, Typ: types.NewSlice(et)}
		sub := e.with(map[string]Val{id.Name: sl})
		body := sub.boolTerm(x.Args[2])
		if sub.err != nil && e.err == nil {
			e.err = sub.err
		}
		g := tAnd(tLe(intLit(0), Term{on, SInt}), tLe(intLit(0), Term{ln, SInt}))
		// integer elements are within the range of their type
		var rng []Term
		var addRng func(tr SeqTree)
		addRng = func(tr SeqTree) {
			for _, f := range tr.Fields {
				addRng(f)
			}
			if tr.Fields == nil {
				if ii, ok := st.c.pkg.intInfo(tr.Typ); ok && !ii.bv {
					kb := st.c.boundName("k")
					rng = append(rng, Term{fmt.Sprintf("(forall ((%s Int)) (! (and (<= %s (select %s %s)) (<= (select %s %s) %s)) :pattern ((select %s %s))))", kb, bigLit(ii.min()).S, tr.Arr.S, kb, tr.Arr.S, kb, bigLit(ii.max()).S, tr.Arr.S, kb), SBool})
				}
			}
		}
		_ = addRng // range guards deliberately not added: the quantified statement then covers all integer arrays
		_ = rng
		return Scalar{mkForall(fmt.Sprintf("%s (%s Int) (%s Int)", strings.Join(binders, " "), on, ln), tImplies(g, body)), boolT}
	case "haskey":
		// haskey(m, k): k is a key of map m
		mv, ok := e.eval(x.Args[0]).(MapV)
		if !ok {
			return e.fail("haskey needs a map")
		}
		mt := mv.Typ.Underlying().(*types.Map)
		kv := e.eval(x.Args[1])
		if cv, ok := kv.(ConstV); ok {
			if ii, ok := st.c.pkg.intInfo(mt.Key()); ok {
				kv = Scalar{st.toLeaf(cv, ii.sort()), mt.Key()}
			}
		}
		k := st.toLeaf(kv, st.keySort(mt.Key()))
		return Scalar{app(SBool, "select", mv.Dom, k), boolT}
	case "isa":
		// isa(x, *T): the interface value x holds a value of dynamic type *T
		v := e.eval(x.Args[0])
		iv, ok := v.(IfaceV)
		if !ok {
			return e.fail("isa needs an interface value")
		}
		if iv.Dyn == nil {
			// not known on this path: an unconstrained truth value (the clause then has to hold without it)
			return Scalar{st.c.fresh("isa_unknown", SBool), boolT}
		}
		want := exprString(x.Args[1])
		have := strings.ReplaceAll(types.TypeString(iv.Dyn, func(p *types.Package) string { return "" }), "*.", "*")
		have = strings.TrimPrefix(have, ".")
		if have == want {
			return Scalar{tTrue, boolT}
		}
		return Scalar{tFalse, boolT}
	case "isnil":
		v := e.eval(x.Args[0])
		return Scalar{st.eqValNil(v, Scalar{Term{"ref_nil", SRef}, types.Typ[types.UntypedNil]}), boolT}
	case "seq_eq":
		// seq_eq(a, b): same length and same elements
		a, aok := e.eval(x.Args[0]).(SliceV)
		b, bok := e.eval(x.Args[1]).(SliceV)
		if !aok || !bok {
			return e.fail("seq_eq needs slices")
		}
		k := Term{st.c.boundName("k"), SInt}
		ea := e.sliceElem(a, k.S)
		eb := e.sliceElem(b, k.S)
		body := tImplies(tAnd(tLe(intLit(0), k), tLt(k, a.Len)), st.eqVal(ea, eb))
		q := Term{fmt.Sprintf("(forall ((%s Int)) %s)", k.S, body.S), SBool}
		return Scalar{tAnd(tEq(a.Len, b.Len), q), boolT}
	case "same_slice":
		a, aok := e.eval(x.Args[0]).(SliceV)
		b, bok := e.eval(x.Args[1]).(SliceV)
		if !aok || !bok {
			return e.fail("same_slice needs slices")
		}
		return Scalar{st.eqVal(a, b), boolT}
	case "bitset":
		// bitset(word, n): bit n of a bit-vector word (n an integer in [0,width))
		w := e.eval(x.Args[0])
		n := e.intTerm(x.Args[1])
		ws, ok := w.(Scalar)
		if !ok {
			return e.fail("bitset() needs a word")
		}
		wd, ok := isBV(ws.T.Sort)
		if !ok {
			return e.fail("bitset() needs a bit-vector word")
		}
		sh := app(ws.T.Sort, fmt.Sprintf("bvlshr_i%d", wd), ws.T, n)
		return Scalar{tEq(app(bvSort(1), "(_ extract 0 0)", sh), Term{"#b1", bvSort(1)}), boolT}
	}
	// conversions to basic types
	if bk, ok := basicKindByName[name]; ok && len(x.Args) == 1 {
		v := e.eval(x.Args[0])
		return e.specConvert(v, types.Typ[bk])
	}
	if pf, ok := st.c.pkg.contracts.Pures[name]; ok {
		return e.callPure(pf, x)
	}
	return e.fail("unknown spec function %s", name)
}

func (e *SpecEnv) sliceElem(a SliceV, k string) Val {
	seq, ok := e.cur().objs[a.Arr].(SeqV)
	if !ok {
		return e.fail("slice without backing array")
	}
	return e.st.treeSelect(seq.Tree, tAdd(a.Off, Term{k, SInt}))
}

func (c *VCtx) boundName(h string) string {
	c.nfresh++
	return fmt.Sprintf("|%s?%d|", h, c.nfresh)
}

func (e *SpecEnv) specConvert(v Val, to types.Type) Val {
	st := e.st
	ti, _ := st.c.pkg.intInfo(to)
	switch x := v.(type) {
	case ConstV:
		return Scalar{st.toLeaf(x, ti.sort()), to}
	case Scalar:
		fi, ok := st.c.pkg.intInfo(x.Typ)
		if !ok {
			return e.fail("conversion of non-integer")
		}
		switch {
		case !fi.bv && !ti.bv:
			return Scalar{x.T, to} // mathematical: no wrapping in specs
		case fi.bv && !ti.bv:
			return Scalar{st.bvToInt(x.T, fi), to}
		default:
			return st.convert(x, to)
		}
	}
	return e.fail("conversion of %T", v)
}

func (e *SpecEnv) iteVal(c Term, a, b Val) Val {
	st := e.st
	switch x := a.(type) {
	case StructV:
		if y, ok := b.(StructV); ok {
			out := StructV{Typ: x.Typ}
			for i := range x.F {
				out.F = append(out.F, e.iteVal(c, x.F[i], y.F[i]))
			}
			return out
		}
	}
	p, q, ok := st.coerce(a, b)
	if !ok || p.T.Sort != q.T.Sort {
		return e.fail("ite branches have different shapes (%T, %T)", a, b)
	}
	return Scalar{tIte(c, p.T, q.T), p.Typ}
}

func (e *SpecEnv) quant(kind string, x *ast.CallExpr) Val {
	st := e.st
	args := x.Args
	var typ types.Type = types.Typ[types.Int]
	var trigX ast.Expr
	if kind == "forall_t" {
		// forall_t(k, lo, hi, trigger, body)
		if len(args) != 5 && len(args) != 6 {
			return e.fail("forall_t([type,] k, lo, hi, trigger, body)")
		}
		n := len(args)
		trigX = args[n-2]
		args = append(append([]ast.Expr(nil), args[:n-2]...), args[n-1])
		kind = "forall"
	}
	mathint := false
	if len(args) == 5 {
		tn := exprString(args[0])
		if tn == "mathint" {
			mathint = true
		} else if tn == "string" {
			// quantification over all strings: forall(string, s, 0, inf, body)
			id, ok := args[1].(*ast.Ident)
			if !ok {
				return e.fail("quantifier variable must be an identifier")
			}
			bn := st.c.boundName(id.Name)
			sub := e.with(map[string]Val{id.Name: Scalar{Term{bn, SStr}, types.Typ[types.String]}})
			body := sub.boolTerm(args[4])
			if sub.err != nil && e.err == nil {
				e.err = sub.err
			}
			if kind == "forall" {
				return Scalar{mkForall(fmt.Sprintf("(%s Str)", bn), body), types.Typ[types.Bool]}
			}
			return Scalar{Term{fmt.Sprintf("(exists ((%s Str)) %s)", bn, body.S), SBool}, types.Typ[types.Bool]}
		} else {
			bk, ok := basicKindByName[tn]
			if !ok {
				return e.fail("quantifier type %s", tn)
			}
			typ = types.Typ[bk]
		}
		args = args[1:]
	}
	if len(args) != 4 {
		return e.fail("%s(k, lo, hi, body)", kind)
	}
	id, ok := args[0].(*ast.Ident)
	if !ok {
		return e.fail("quantifier variable must be an identifier")
	}
	ii, _ := st.c.pkg.intInfo(typ)
	bn := st.c.boundName(id.Name)
	var kv Val
	var kInt Term
	if ii.bv {
		kv = Scalar{Term{bn, ii.sort()}, typ}
		kInt = st.bvToInt(Term{bn, ii.sort()}, ii)
	} else {
		kv = Scalar{Term{bn, SInt}, typ}
		kInt = Term{bn, SInt}
	}
	var guards []Term
	loInf := false
	if u, ok := args[1].(*ast.UnaryExpr); ok && u.Op == token.SUB {
		if id2, ok := u.X.(*ast.Ident); ok && id2.Name == "inf" {
			loInf = true
		}
	}
	lo := intLit(0)
	if !loInf {
		lo = e.intTerm(args[1])
	}
	hinf := false
	if h, ok := args[2].(*ast.Ident); ok && h.Name == "inf" {
		hinf = true
	}
	if !(ii.bv && hinf && lo.S == "0") && !loInf {
		guards = append(guards, tLe(lo, kInt))
	}
	if hinf {
		if !ii.bv && !mathint {
			guards = append(guards, tLe(kInt, bigLit(ii.max())))
		}
	} else {
		guards = append(guards, tLt(kInt, e.intTerm(args[2])))
	}
	sub := e.with(map[string]Val{id.Name: kv})
	body := sub.boolTerm(args[3])
	if sub.err != nil && e.err == nil {
		e.err = sub.err
	}
	var t Term
	if kind == "forall" && trigX != nil {
		// trigger: one term, or trig(t1, t2, ...) for a multi-pattern
		var trigExprs []ast.Expr
		if ce, ok := trigX.(*ast.CallExpr); ok {
			if id, ok := ce.Fun.(*ast.Ident); ok && id.Name == "trig" {
				trigExprs = ce.Args
			}
		}
		if trigExprs == nil {
			trigExprs = []ast.Expr{trigX}
		}
		var pats []string
		for _, tx := range trigExprs {
			tv := sub.eval(tx)
			ts, ok := tv.(Scalar)
			if !ok {
				return e.fail("trigger must be a scalar term")
			}
			pats = append(pats, ts.T.S)
		}
		t = mkForall(fmt.Sprintf("(%s %s)", bn, ii.sort()), Term{fmt.Sprintf("(! %s :pattern (%s))", tImplies(tAnd(guards...), body).S, strings.Join(pats, " ")), SBool})
	} else if kind == "forall" {
		t = mkForall(fmt.Sprintf("(%s %s)", bn, ii.sort()), tImplies(tAnd(guards...), body))
	} else {
		t = Term{fmt.Sprintf("(exists ((%s %s)) %s)", bn, ii.sort(), tAnd(append(guards, body)...).S), SBool}
	}
	return Scalar{t, types.Typ[types.Bool]}
}

func (e *SpecEnv) callPure(pf *PureFunc, x *ast.CallExpr) Val {
	st := e.st
	if len(x.Args) != len(pf.Params) {
		return e.fail("%s: wrong number of arguments", pf.Name)
	}
	if e.depth > 40 {
		return e.fail("%s: pure function expansion too deep (recursion is not allowed)", pf.Name)
	}
	args := make([]Val, len(x.Args))
	for i, a := range x.Args {
		args[i] = e.eval(a)
	}
	if pf.Body != nil {
		n := *e
		n.vars = map[string]Val{}
		n.fx = nil
		n.depth = e.depth + 1
		for i, p := range pf.Params {
			v := args[i]
			// typed parameters coerce untyped constants
			if cv, ok := v.(ConstV); ok {
				if t := st.c.pkg.resolveType(pf.PTypes[i]); t != nil {
					if ii, ok := st.c.pkg.intInfo(t); ok {
						v = Scalar{st.toLeaf(cv, ii.sort()), t}
					}
				}
			}
			n.vars[p] = v
		}
		// heap reads inside the body use the state the *arguments* were
		// evaluated in; slices carry their own array ids, looked up in cur().
		r := n.eval(pf.Body)
		if n.err != nil && e.err == nil {
			e.err = fmt.Errorf("in %s: %v", pf.Name, n.err)
		}
		if cv, ok := r.(ConstV); ok && pf.RType != nil {
			if t := st.c.pkg.resolveType(pf.RType); t != nil {
				if ii, ok := st.c.pkg.intInfo(t); ok {
					return Scalar{st.toLeaf(cv, ii.sort()), t}
				}
			}
		}
		return r
	}
	// uninterpreted: flatten arguments
	var flat []Term
	for i, a := range args {
		switch v := a.(type) {
		case Scalar:
			flat = append(flat, v.T)
		case ConstV:
			t := st.c.pkg.resolveType(pf.PTypes[i])
			srt := SInt
			if t != nil {
				if ii, ok := st.c.pkg.intInfo(t); ok {
					srt = ii.sort()
				}
			}
			flat = append(flat, st.toLeaf(v, srt))
		case SliceV:
			seq, ok := e.cur().objs[v.Arr].(SeqV)
			if !ok {
				if v.Arr != 0 {
					return e.fail("%s: slice argument without backing array", pf.Name)
				}
				// nil slice: contents are irrelevant (length 0)
				et := v.Typ.Underlying().(*types.Slice).Elem()
				seq = SeqV{Tree: st.c.pkg.seqTreeOf(st.c, et, "nilarr", false), Typ: et}
			}
			flat = append(flat, st.leaves(seq.Tree)...)
			flat = append(flat, v.Off, v.Len)
		case StructV:
			var fl func(sv StructV) bool
			fl = func(sv StructV) bool {
				for _, f := range sv.F {
					switch fv := f.(type) {
					case Scalar:
						flat = append(flat, fv.T)
					case StructV:
						if !fl(fv) {
							return false
						}
					case PtrV, IfaceV:
						flat = append(flat, st.toLeaf(fv, SRef))
					default:
						return false
					}
				}
				return true
			}
			if !fl(v) {
				return e.fail("%s: unsupported struct argument", pf.Name)
			}
		case PtrV, IfaceV:
			flat = append(flat, st.toLeaf(v, SRef))
		default:
			return e.fail("%s: unsupported argument %T", pf.Name, a)
		}
	}
	rt := st.c.pkg.resolveType(pf.RType)
	rs := SBool
	if rt != nil {
		rs = st.c.pkg.scalarSort(rt)
		if rs == "" {
			rs = SRef
		}
	}
	st.c.declareUF(pf.Name, flat, rs)
	if rt == nil {
		rt = types.Typ[types.Bool]
	}
	return Scalar{app(rs, "uf_"+pf.Name, flat...), rt}
}

func (c *VCtx) declareUF(name string, args []Term, rs string) {
	if c.ufs == nil {
		c.ufs = map[string]bool{}
	}
	if c.ufs[name] {
		return
	}
	c.ufs[name] = true
	var as []string
	for _, a := range args {
		as = append(as, a.Sort)
	}
	c.decls = append(c.decls, fmt.Sprintf("(declare-fun uf_%s (%s) %s)", name, strings.Join(as, " "), rs))
}

// resolveType resolves a type expression from a spec signature.
func (p *PkgCtx) resolveType(x ast.Expr) types.Type {
	switch t := x.(type) {
	case nil:
		return nil
	case *ast.Ident:
		if bk, ok := basicKindByName[t.Name]; ok {
			return types.Typ[bk]
		}
		switch t.Name {
		case "bool":
			return types.Typ[types.Bool]
		case "string":
			return types.Typ[types.String]
		}
		if p.tpkg != nil {
			if obj := p.tpkg.Scope().Lookup(t.Name); obj != nil {
				if tn, ok := obj.(*types.TypeName); ok {
					return tn.Type()
				}
			}
		}
	case *ast.ArrayType:
		if el := p.resolveType(t.Elt); el != nil && t.Len == nil {
			return types.NewSlice(el)
		}
	case *ast.StarExpr:
		if el := p.resolveType(t.X); el != nil {
			return types.NewPointer(el)
		}
	}
	return nil
}

// lvalue resolves a location expression (modifies clauses): returns the
// pointer to the location and the value currently stored there.
func (e *SpecEnv) lvalue(x ast.Expr) (PtrV, Val, bool) {
	switch t := x.(type) {
	case *ast.ParenExpr:
		return e.lvalue(t.X)
	case *ast.StarExpr:
		v := e.eval(t.X)
		if p, ok := v.(PtrV); ok && (p.Sym == "" && p.Obj != 0 || isHeapPtr(p)) {
			p, _ = e.cur().resolve(p)
			lv, ok := e.cur().load(p)
			return p, lv, ok
		}
		e.fail("cannot resolve *%s", exprString(t.X))
		return PtrV{}, nil, false
	case *ast.SelectorExpr:
		var base PtrV
		bv := e.eval(t.X)
		if p, ok := bv.(PtrV); ok && p.Sym == "" && p.Obj != 0 {
			base = p
		} else if ok && isHeapPtr(p) {
			base, _ = e.cur().resolve(p)
		} else if bp, _, ok := e.lvalue(t.X); ok {
			base = bp
		} else {
			e.fail("cannot resolve location %s", exprString(x))
			return PtrV{}, nil, false
		}
		cur, ok := e.cur().load(base)
		if !ok {
			return PtrV{}, nil, false
		}
		sv, ok := cur.(StructV)
		if !ok {
			e.fail("location %s: not a struct", exprString(x))
			return PtrV{}, nil, false
		}
		if fp, ok := fieldPath(sv.Typ, t.Sel.Name); ok {
			np := PtrV{Obj: base.Obj, Sym: base.Sym, Root: base.Root, Path: append([]Step(nil), base.Path...)}
			var fv Val = sv
			ft := sv.Typ
			for _, f := range fp {
				np.Path = append(np.Path, Step{Field: f})
				ft = ft.Underlying().(*types.Struct).Field(f).Type()
				if s2, ok := fv.(StructV); ok && f < len(s2.F) {
					fv = s2.F[f]
				}
			}
			np.Typ = types.NewPointer(ft)
			return np, fv, true
		}
		e.fail("no field %s", t.Sel.Name)
		return PtrV{}, nil, false
	case *ast.Ident:
		// a slice-typed parameter: its elements
		v := e.eval(t)
		if sl, ok := v.(SliceV); ok {
			return PtrV{}, sl, true
		}
		if p, ok := v.(PtrV); ok && (p.Sym == "" && p.Obj != 0 || isHeapPtr(p)) {
			p, _ = e.cur().resolve(p)
			lv, ok := e.cur().load(p)
			return p, lv, ok
		}
		// a captured or local variable
		if fxx := e.fx; fxx == nil && e.lvFx != nil {
			for _, fv := range e.lvFx.fn.FreeVars {
				if fv.Name() == t.Name {
					if p, ok := e.cur().regs[fv].(PtrV); ok {
						lv, ok := e.cur().load(p)
						return p, lv, ok
					}
				}
			}
		}
		if e.fx != nil {
			for _, fv := range e.fx.fn.FreeVars {
				if fv.Name() == t.Name {
					if p, ok := e.cur().regs[fv].(PtrV); ok {
						lv, ok := e.cur().load(p)
						return p, lv, ok
					}
				}
			}
		}
	}
	e.fail("unsupported location %s", exprString(x))
	return PtrV{}, nil, false
}

func isHeapPtr(p PtrV) bool {
	if p.Sym == "" {
		return false
	}
	_, ok := symStructElem(p)
	return ok
}
