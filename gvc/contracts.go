package main

import (
	"fmt"
	"go/ast"
	"go/parser"
	"go/token"
	"go/types"
	"os"
	"path/filepath"
	"sort"
	"strconv"
	"strings"
)

// ---------------------------------------------------------------------------
// Contract files: comment-only Go files `*_contracts_verif.go` (build tag
// verif) next to the code. Every line starting with `//@` is a directive.
//
//   //@ property C17                      default property for what follows
//   //@ bv uint64 uint8                   integer kinds modelled as bit-vectors in this package
//   //@ pure W(m []uint64, k int) uint64 = ite(k < len(m), m[k], 0)
//   //@ uninterp popsum(m []uint64, n int) int
//   //@ axiom name: expr
//   //@ lemma name: expr
//   //@ extern math/bits.Len64(x) r      assumed contract of a function without body/contract
//   //@   ensures ...
//   //@ func (*LongBitmask).Or           function under contract (ssa RelString)
//   //@   requires e | ensures e | modifies lv, lv | decreases e | mode abstract
//   //@   loop N invariant e | loop N decreases e
//   //@   assert at call f#k: e   (rule-site assertion before the k-th call of f)
//   //@   assume e  -- never used to make a proof pass; listed in evidence
// A trailing backslash continues a directive on the next //@ line.
// ---------------------------------------------------------------------------

type Clause struct {
	Text string
	Expr ast.Expr
	Prop string // property id
	Name string // optional label
	Line string // file:line
}

type LoopSpec struct {
	Inv    []Clause
	Dec    []Clause
	Assume []Clause // explicitly listed, unverified assumptions at the loop header
}

type SiteAssert struct {
	Callee string
	K      int
	When   string // "before" | "after"
	Cl     Clause
	Assume bool
}

type FuncContract struct {
	Key      string
	Prop     string
	Params   []string // names given in header (optional)
	Results  []string
	Requires []Clause
	Ensures  []Clause
	Modifies []Clause
	Decr     []Clause
	Loops    map[int]*LoopSpec
	Sites    []SiteAssert
	Extern   bool
	Trusted  bool // body not verified (contract assumed); listed in evidence
	NoFrame  bool
	Line     string
	Nullable map[string]bool
	Unroll   map[int]int
	Uses     []string
	NoSafety bool
	HeapPtrs []string // parameters / captured variables of pointer type that are unknown heap references (may alias objects stored in containers)
	AppendInPlace bool // append is modelled with both outcomes: writing into spare capacity of the operand's array, or a fresh array
	CutLoops bool // modular loops: the code after a loop header is verified once, from the invariant alone
	Stop     string // region contract: paths end before this call site; ensures are checked there
	Start    string // region contract: verification starts before this call site (callee#k)
}

type PureFunc struct {
	Name    string
	Params  []string
	PTypes  []ast.Expr
	RType   ast.Expr
	Body    ast.Expr // nil => uninterpreted
	Line    string
	SMTName string
}

type Lemma struct {
	Induct string
	Uses  []string
	Name  string
	Cl    Clause
	Axiom bool
	Prop  string
}

type Contracts struct {
	Funcs   map[string]*FuncContract
	Externs map[string]*FuncContract
	Pures   map[string]*PureFunc
	Lemmas  []*Lemma
	BVKinds map[types.BasicKind]bool
	Files   []string
	Assumes []string
	Logged  map[string]bool
}

var basicKindByName = map[string]types.BasicKind{
	"int": types.Int, "int8": types.Int8, "int16": types.Int16, "int32": types.Int32, "int64": types.Int64,
	"uint": types.Uint, "uint8": types.Uint8, "uint16": types.Uint16, "uint32": types.Uint32, "uint64": types.Uint64,
	"byte": types.Uint8, "uintptr": types.Uintptr, "rune": types.Int32,
}

func parseExprAt(text, where string) (ast.Expr, error) {
	e, err := parser.ParseExpr(text)
	if err != nil {
		return nil, fmt.Errorf("%s: cannot parse %q: %v", where, text, err)
	}
	return e, nil
}

func loadContracts(dir string) (*Contracts, error) {
	cs := &Contracts{Funcs: map[string]*FuncContract{}, Externs: map[string]*FuncContract{}, Pures: map[string]*PureFunc{}, BVKinds: map[types.BasicKind]bool{}, Logged: map[string]bool{}}
	files, _ := filepath.Glob(filepath.Join(dir, "*_contracts_verif.go"))
	sort.Strings(files)
	for _, f := range files {
		if err := cs.parseFile(f); err != nil {
			return nil, err
		}
		cs.Files = append(cs.Files, f)
	}
	return cs, nil
}

func (cs *Contracts) parseFile(path string) error {
	data, err := os.ReadFile(path)
	if err != nil {
		return err
	}
	// join continuation lines
	type dl struct {
		text string
		line int
	}
	var ds []dl
	pending := ""
	pendLine := 0
	for i, raw := range strings.Split(string(data), "\n") {
		t := strings.TrimSpace(raw)
		if !strings.HasPrefix(t, "//@") {
			continue
		}
		t = strings.TrimSpace(t[3:])
		if i := strings.Index(t, " //"); i >= 0 && !strings.Contains(t[:i], "\"") {
			t = strings.TrimSpace(t[:i])
		}
		if pending == "" {
			pendLine = i + 1
		}
		if strings.HasSuffix(t, "\\") {
			pending += strings.TrimSuffix(t, "\\") + " "
			continue
		}
		ds = append(ds, dl{pending + t, pendLine})
		pending = ""
	}
	prop := ""
	var cur *FuncContract
	base := filepath.Base(path)
	for _, d := range ds {
		where := fmt.Sprintf("%s:%d", base, d.line)
		word, rest := splitWord(d.text)
		mk := func(text string) (Clause, error) {
			name := ""
			// optional label  "name: expr" where name is an identifier w/o spaces
			cprop := ""
			if i := strings.Index(text, ": "); i > 0 && isIdent(strings.ReplaceAll(text[:i], "@", "_")) {
				name = text[:i]
				text = strings.TrimSpace(text[i+2:])
				// label@C03: the clause belongs to another property than its function
				if j := strings.Index(name, "@"); j > 0 {
					cprop = name[j+1:]
					name = name[:j]
				}
			}
			e, err := parseExprAt(text, where)
			if err != nil {
				return Clause{}, err
			}
			p := prop
			if cur != nil && cur.Prop != "" {
				p = cur.Prop
			}
			if cprop != "" {
				p = cprop
			}
			return Clause{Text: text, Expr: e, Prop: p, Name: name, Line: where}, nil
		}
		switch word {
		case "property":
			prop = rest
			cur = nil
		case "bv":
			for _, k := range strings.Fields(rest) {
				bk, ok := basicKindByName[k]
				if !ok {
					return fmt.Errorf("%s: unknown kind %s", where, k)
				}
				cs.BVKinds[bk] = true
			}
		case "log":
			// log invoke.ReadByte : record the results of calls to this callee in a ghost log
			for _, n := range strings.Fields(rest) {
				cs.Logged[n] = true
			}
		case "pure", "uninterp":
			pf, err := parsePure(rest, word == "uninterp", where)
			if err != nil {
				return err
			}
			cs.Pures[pf.Name] = pf
			cur = nil
		case "axiom", "lemma":
			i := strings.Index(rest, ":")
			if i < 0 {
				return fmt.Errorf("%s: %s needs a name", where, word)
			}
			name := strings.TrimSpace(rest[:i])
			var uses []string
			if j := strings.Index(name, " uses "); j > 0 {
				uses = splitTop(name[j+6:])
				name = strings.TrimSpace(name[:j])
			}
			induct := ""
			if j := strings.Index(name, " induct "); j > 0 {
				induct = strings.TrimSpace(name[j+8:])
				name = strings.TrimSpace(name[:j])
			}
			e, err := parseExprAt(strings.TrimSpace(rest[i+1:]), where)
			if err != nil {
				return err
			}
			cs.Lemmas = append(cs.Lemmas, &Lemma{Name: name, Cl: Clause{Text: strings.TrimSpace(rest[i+1:]), Expr: e, Prop: prop, Line: where}, Axiom: word == "axiom", Prop: prop, Uses: uses, Induct: induct})
			cur = nil
		case "func", "extern":
			key, params, results, err := parseHeader(rest, where)
			if err != nil {
				return err
			}
			cur = &FuncContract{Key: key, Prop: prop, Params: params, Results: results, Loops: map[int]*LoopSpec{}, Extern: word == "extern", Line: where, Nullable: map[string]bool{}, Unroll: map[int]int{}}
			if cur.Extern {
				cs.Externs[key] = cur
			} else {
				if _, dup := cs.Funcs[key]; dup {
					return fmt.Errorf("%s: duplicate contract for %s", where, key)
				}
				cs.Funcs[key] = cur
			}
		case "prop":
			if cur == nil {
				return fmt.Errorf("%s: prop outside func", where)
			}
			cur.Prop = rest
		case "requires", "ensures", "decreases":
			if cur == nil {
				return fmt.Errorf("%s: %s outside func", where, word)
			}
			cl, err := mk(rest)
			if err != nil {
				return err
			}
			switch word {
			case "requires":
				cur.Requires = append(cur.Requires, cl)
			case "ensures":
				cur.Ensures = append(cur.Ensures, cl)
			case "decreases":
				cur.Decr = append(cur.Decr, cl)
			}
		case "modifies":
			if cur == nil {
				return fmt.Errorf("%s: modifies outside func", where)
			}
			for _, part := range splitTop(rest) {
				cl, err := mk(part)
				if err != nil {
					return err
				}
				cur.Modifies = append(cur.Modifies, cl)
			}
		case "use":
			if cur == nil {
				return fmt.Errorf("%s: use outside func", where)
			}
			for _, n := range splitTop(rest) {
				cur.Uses = append(cur.Uses, n)
			}
		case "trusted":
			if cur == nil {
				return fmt.Errorf("%s: trusted outside func", where)
			}
			cur.Trusted = true
		case "start":
			// start before call f#k
			w1, r2 := splitWord(rest)
			w2, r3 := splitWord(r2)
			if w1 != "before" || w2 != "call" || cur == nil {
				return fmt.Errorf("%s: expected `start before call f#k`", where)
			}
			cur.Start = strings.TrimSpace(r3)
		case "stop":
			w1, r2 := splitWord(rest)
			w2, r3 := splitWord(r2)
			if w1 != "before" || w2 != "call" || cur == nil {
				return fmt.Errorf("%s: expected `stop before call f#k`", where)
			}
			cur.Stop = strings.TrimSpace(r3)
		case "cutloops":
			cur.CutLoops = true
		case "appendinplace":
			cur.AppendInPlace = true
		case "heap":
			for _, n := range strings.FieldsFunc(rest, func(r rune) bool { return r == ',' || r == ' ' }) {
				cur.HeapPtrs = append(cur.HeapPtrs, n)
			}
		case "nosafety":
			cur.NoSafety = true
		case "noframe":
			cur.NoFrame = true
		case "nullable":
			for _, n := range strings.Fields(rest) {
				cur.Nullable[n] = true
			}
		case "loop":
			if cur == nil {
				return fmt.Errorf("%s: loop outside func", where)
			}
			nstr, r2 := splitWord(rest)
			n, err := strconv.Atoi(nstr)
			if err != nil {
				return fmt.Errorf("%s: loop ordinal: %v", where, err)
			}
			kind, r3 := splitWord(r2)
			ls := cur.Loops[n]
			if ls == nil {
				ls = &LoopSpec{}
				cur.Loops[n] = ls
			}
			if kind == "unroll" {
				k, err := strconv.Atoi(strings.TrimSpace(r3))
				if err != nil {
					return fmt.Errorf("%s: unroll count: %v", where, err)
				}
				cur.Unroll[n] = k
				continue
			}
			cl, err := mk(r3)
			if err != nil {
				return err
			}
			switch kind {
			case "assume":
				ls.Assume = append(ls.Assume, cl)
				cs.Assumes = append(cs.Assumes, where+": loop "+nstr+" assume "+cl.Text)
			case "invariant":
				ls.Inv = append(ls.Inv, cl)
			case "decreases":
				ls.Dec = append(ls.Dec, cl)
			default:
				return fmt.Errorf("%s: unknown loop clause %s", where, kind)
			}
		case "assert", "assume":
			// assert before|after call NAME#K: expr
			if cur == nil {
				return fmt.Errorf("%s: %s outside func", where, word)
			}
			when, r2 := splitWord(rest)
			kw, r3 := splitWord(r2)
			if strings.HasPrefix(kw, "return#") {
				r3 = r2
				kw = "call"
			}
			if (when != "before" && when != "after") || kw != "call" {
				return fmt.Errorf("%s: expected `%s before|after call f#k: expr`", where, word)
			}
			i := strings.Index(r3, ":")
			if i < 0 {
				return fmt.Errorf("%s: missing ':'", where)
			}
			site := strings.TrimSpace(r3[:i])
			callee, k := site, 1
			if j := strings.LastIndex(site, "#"); j >= 0 {
				callee = site[:j]
				k, err = strconv.Atoi(site[j+1:])
				if err != nil {
					return fmt.Errorf("%s: bad site %s", where, site)
				}
			}
			cl, err := mk(strings.TrimSpace(r3[i+1:]))
			if err != nil {
				return err
			}
			cur.Sites = append(cur.Sites, SiteAssert{Callee: callee, K: k, When: when, Cl: cl, Assume: word == "assume"})
			if word == "assume" {
				cs.Assumes = append(cs.Assumes, where+": assume "+cl.Text)
			}
		default:
			return fmt.Errorf("%s: unknown directive %q", where, word)
		}
	}
	return nil
}

func splitWord(s string) (string, string) {
	s = strings.TrimSpace(s)
	i := strings.IndexAny(s, " \t")
	if i < 0 {
		return s, ""
	}
	return s[:i], strings.TrimSpace(s[i+1:])
}

func isIdent(s string) bool {
	if s == "" {
		return false
	}
	for i, r := range s {
		if !(r == '_' || r >= 'a' && r <= 'z' || r >= 'A' && r <= 'Z' || (i > 0 && (r >= '0' && r <= '9' || r == '.' || r == '-'))) {
			return false
		}
	}
	return true
}

// splitTop splits on commas that are not nested in parentheses/brackets.
func splitTop(s string) []string {
	var out []string
	depth := 0
	start := 0
	for i, r := range s {
		switch r {
		case '(', '[', '{':
			depth++
		case ')', ']', '}':
			depth--
		case ',':
			if depth == 0 {
				out = append(out, strings.TrimSpace(s[start:i]))
				start = i + 1
			}
		}
	}
	if t := strings.TrimSpace(s[start:]); t != "" {
		out = append(out, t)
	}
	return out
}

// parseHeader: "(*T).M(a, b) r" or "pkg/path.F(x) (r, ok)" or just a key.
func parseHeader(s, where string) (key string, params, results []string, err error) {
	s = strings.TrimSpace(s)
	// find the parameter list: the last '(' that follows the name
	// key may itself start with '(' for methods: (*T).M
	i := 0
	if strings.HasPrefix(s, "(") {
		i = strings.Index(s, ")")
		if i < 0 {
			return "", nil, nil, fmt.Errorf("%s: bad header", where)
		}
	}
	j := strings.Index(s[i:], "(")
	if j < 0 {
		return s, nil, nil, nil
	}
	j += i
	key = strings.TrimSpace(s[:j])
	k := strings.Index(s[j:], ")")
	if k < 0 {
		return "", nil, nil, fmt.Errorf("%s: bad header", where)
	}
	k += j
	for _, p := range splitTop(s[j+1 : k]) {
		params = append(params, strings.Fields(p)[0])
	}
	rest := strings.TrimSpace(s[k+1:])
	rest = strings.Trim(rest, "()")
	for _, r := range splitTop(rest) {
		results = append(results, strings.Fields(r)[0])
	}
	return key, params, results, nil
}

// parsePure: "W(m []uint64, k int) uint64 = expr"
func parsePure(s string, uninterp bool, where string) (*PureFunc, error) {
	body := ""
	if !uninterp {
		i := strings.Index(s, " = ")
		if i < 0 {
			return nil, fmt.Errorf("%s: pure function needs `= body`", where)
		}
		body = strings.TrimSpace(s[i+3:])
		s = strings.TrimSpace(s[:i])
	}
	// parse signature via go/parser
	src := "package p\nfunc " + s
	fset := token.NewFileSet()
	f, err := parser.ParseFile(fset, "", src, 0)
	if err != nil {
		return nil, fmt.Errorf("%s: bad signature %q: %v", where, s, err)
	}
	fd := f.Decls[0].(*ast.FuncDecl)
	pf := &PureFunc{Name: fd.Name.Name, Line: where}
	for _, fl := range fd.Type.Params.List {
		for _, n := range fl.Names {
			pf.Params = append(pf.Params, n.Name)
			pf.PTypes = append(pf.PTypes, fl.Type)
		}
	}
	if fd.Type.Results != nil && len(fd.Type.Results.List) == 1 {
		pf.RType = fd.Type.Results.List[0].Type
	}
	if !uninterp {
		e, err := parseExprAt(body, where)
		if err != nil {
			return nil, err
		}
		pf.Body = e
	}
	return pf, nil
}
