package main

import (
	"regexp"
	"runtime"
	"bytes"
	"context"
	"fmt"
	"os"
	"os/exec"
	"path/filepath"
	"strings"
	"sync"
	"time"
)

type SolverCfg struct {
	Timeout  time.Duration // per query, full race
	Quick    time.Duration // first attempt with the fast solver
	Workers  int
	TmpDir   string
	KeepSMT  bool
	AllAgree bool // thorough: ask every solver, report disagreement
}

var preludeText = prelude()

var markerRe = regexp.MustCompile(`(bvmul|bvudiv|bvurem|bvsdiv|bvsrem|int2bv|bv2nat)@(\d+)`)

// render resolves the operator markers: precisely, or (abstract) as uninterpreted functions of
// the same signature. The abstraction over-approximates, so unsat under it is unsat precisely.
func render(text string, abstract bool) string {
	if !abstract {
		return markerRe.ReplaceAllStringFunc(text, func(m string) string {
			sm := markerRe.FindStringSubmatch(m)
			switch sm[1] {
			case "int2bv":
				return "(_ int2bv " + sm[2] + ")"
			case "bv2nat":
				return "bv2nat"
			}
			return sm[1]
		})
	}
	used := map[string]bool{}
	out := markerRe.ReplaceAllStringFunc(text, func(m string) string {
		sm := markerRe.FindStringSubmatch(m)
		used[sm[1]+"@"+sm[2]] = true
		return "abs_" + sm[1] + "_" + sm[2]
	})
	var decl strings.Builder
	for k := range used {
		sm := markerRe.FindStringSubmatch(k)
		bv := "(_ BitVec " + sm[2] + ")"
		switch sm[1] {
		case "int2bv":
			fmt.Fprintf(&decl, "(declare-fun abs_int2bv_%s (Int) %s)\n", sm[2], bv)
		case "bv2nat":
			fmt.Fprintf(&decl, "(declare-fun abs_bv2nat_%s (%s) Int)\n(assert (forall ((x %s)) (! (and (<= 0 (abs_bv2nat_%s x)) (< (abs_bv2nat_%s x) %s)) :pattern ((abs_bv2nat_%s x)))))\n", sm[2], bv, bv, sm[2], sm[2], pow2(atoi(sm[2])).String(), sm[2])
		default:
			fmt.Fprintf(&decl, "(declare-fun abs_%s_%s (%s %s) %s)\n", sm[1], sm[2], bv, bv, bv)
		}
	}
	return strings.Replace(out, ";;ABSDECLS\n", decl.String(), 1)
}

func atoi(s string) int {
	n := 0
	fmt.Sscanf(s, "%d", &n)
	return n
}

func smtTextMode(inst *Instance, cover, abstract bool) string {
	return render(smtText(inst, cover), abstract)
}

func smtText(inst *Instance, cover bool) string {
	var b strings.Builder
	b.WriteString("(set-option :produce-models true)\n(set-logic ALL)\n")
	b.WriteString(";;PRELUDE\n")
	b.WriteString(";;ABSDECLS\n")
	for _, d := range inst.Decls {
		b.WriteString(d)
		b.WriteString("\n")
	}
	for _, a := range inst.Assumps {
		b.WriteString("(assert ")
		b.WriteString(a.S)
		b.WriteString(")\n")
	}
	if !cover {
		b.WriteString("(assert (not ")
		b.WriteString(inst.Goal.S)
		b.WriteString("))\n")
	}
	b.WriteString("(check-sat)\n(get-model)\n")
	body := b.String()
	return strings.Replace(body, ";;PRELUDE\n", slimPrelude(body), 1)
}

// slimPrelude keeps only the prelude lines whose symbols occur in the query (axioms about symbols a
// query does not mention cannot matter for it, but they do disturb quantifier instantiation).
func slimPrelude(body string) string {
	var out strings.Builder
	lines := strings.Split(preludeText, "\n")
	// iterate to a fixpoint: a kept definition may mention further prelude symbols
	keep := make([]bool, len(lines))
	text := body
	for changed := true; changed; {
		changed = false
		for i, l := range lines {
			if keep[i] || l == "" {
				continue
			}
			sym := preludeSymbol(l)
			need := sym == "" // sort declarations etc.
			if !need {
				for _, sy := range strings.Split(sym, ",") {
					if strings.Contains(text, sy) {
						need = true
					}
				}
			}
			if need {
				keep[i] = true
				text += l
				changed = true
			}
		}
	}
	for i, l := range lines {
		if keep[i] {
			out.WriteString(l)
			out.WriteString("\n")
		}
	}
	return out.String()
}

// preludeSymbol: the symbol(s) whose presence in a query makes this prelude line relevant.
func preludeSymbol(l string) string {
	switch {
	case strings.HasPrefix(l, "(declare-sort"):
		return ""
	case strings.HasPrefix(l, "(declare-fun "), strings.HasPrefix(l, "(define-fun "):
		f := strings.Fields(l)
		return f[1] + " ," + f[1] + ")"
	case strings.HasPrefix(l, "(assert"):
		for _, sy := range []string{"str_cat", "str_lt", "zeroarr_Int_Ref", "zeroarr_Int_Str", "zeroarr_Str_Ref", "zeroarr_Str_Str", "zeroarr_Ref_Ref", "zeroarr_Ref_Str", "strlen"} {
			if strings.Contains(l, sy) {
				return sy
			}
		}
	}
	return ""
}

type solverSpec struct {
	name string
	argv func(file string, secs int) []string
}

var solvers = []solverSpec{
	{"z3-5.1.0", func(f string, s int) []string { return []string{"z3-new", fmt.Sprintf("-T:%d", s), f} }},
	{"cvc5-1.0", func(f string, s int) []string {
		return []string{"cvc5", fmt.Sprintf("--tlimit=%d", s*1000), "--full-saturate-quant", f}
	}},
	{"z3-4.8.12", func(f string, s int) []string { return []string{"/usr/bin/z3", fmt.Sprintf("-T:%d", s), f} }},
}

type solveResult struct {
	verdict string
	solver  string
	secs    float64
	output  string
}

// solverSlots bounds the number of solver processes to the number of cores, so that
// wall-clock timeouts mean the same under load as in isolation.
var solverSlots = make(chan struct{}, runtime.NumCPU())

func runSolver(ctx context.Context, sp solverSpec, file string, timeout time.Duration) solveResult {
	select {
	case solverSlots <- struct{}{}:
	case <-ctx.Done():
		return solveResult{"unknown", sp.name, 0, "cancelled"}
	}
	defer func() { <-solverSlots }()
	if ctx.Err() != nil {
		return solveResult{"unknown", sp.name, 0, "cancelled"}
	}
	secs := int(timeout.Seconds())
	if secs < 1 {
		secs = 1
	}
	argv := sp.argv(file, secs)
	cctx, cancel := context.WithTimeout(ctx, timeout+2*time.Second)
	defer cancel()
	cmd := exec.CommandContext(cctx, argv[0], argv[1:]...)
	var out bytes.Buffer
	cmd.Stdout = &out
	cmd.Stderr = &out
	t0 := time.Now()
	_ = cmd.Run()
	el := time.Since(t0).Seconds()
	text := out.String()
	first := strings.TrimSpace(strings.SplitN(text, "\n", 2)[0])
	for _, l := range strings.Split(text, "\n") {
		l = strings.TrimSpace(l)
		if l == "sat" || l == "unsat" || l == "unknown" || l == "timeout" {
			first = l
			break
		}
	}
	v := "unknown"
	switch first {
	case "unsat":
		v = "unsat"
	case "sat":
		v = "sat"
	case "timeout":
		v = "timeout"
	case "unknown":
		v = "unknown"
	default:
		if cctx.Err() != nil {
			v = "timeout"
		} else if strings.Contains(first, "error") || strings.Contains(text, "(error") {
			v = "error"
		}
	}
	if len(text) > 20000 {
		text = text[:20000] + "\n...[truncated]"
	}
	return solveResult{v, sp.name, el, text}
}

func solveInstance(inst *Instance, cover bool, cfg *SolverCfg, id int) {
	if inst.Verdict != "" {
		return
	}
	raw := smtText(inst, cover)
	text := render(raw, false)
	file := filepath.Join(cfg.TmpDir, fmt.Sprintf("q%06d.smt2", id))
	if !cover && markerRe.MatchString(raw) {
		// stage 0: expensive arithmetic operators uninterpreted (sound over-approximation)
		afile := filepath.Join(cfg.TmpDir, fmt.Sprintf("q%06d.abs.smt2", id))
		if err := os.WriteFile(afile, []byte(render(raw, true)), 0o644); err == nil {
			r := runSolver(context.Background(), solvers[0], afile, cfg.Quick)
			if !cfg.KeepSMT {
				os.Remove(afile)
			}
			if r.verdict == "unsat" {
				inst.Verdict, inst.Solver, inst.Secs, inst.Output = "unsat", r.solver + "+abs", r.secs, "unsat (mul/div/int2bv uninterpreted)"
				if cfg.KeepSMT {
					inst.File = afile
				}
				return
			}
		}
	}
	if err := os.WriteFile(file, []byte(text), 0o644); err != nil {
		inst.Verdict = "error"
		inst.Output = err.Error()
		return
	}
	if !cfg.KeepSMT {
		defer os.Remove(file)
	} else {
		inst.File = file
	}
	total := 0.0
	if cover {
		// vacuity probe: only "unsat" matters (contradictory assumptions); sat/unknown/timeout all pass
		r := runSolver(context.Background(), solvers[0], file, 2*time.Second)
		inst.Verdict, inst.Solver, inst.Secs, inst.Output = r.verdict, r.solver, r.secs, firstLine(r.output)
		return
	}
	// stage 1: fast solver alone
	r := runSolver(context.Background(), solvers[0], file, cfg.Quick)
	total += r.secs
	if r.verdict == "unsat" || r.verdict == "sat" {
		inst.Verdict, inst.Solver, inst.Secs, inst.Output = r.verdict, r.solver, total, r.output
		if r.verdict == "sat" {
			inst.Model = r.output
		}
		if !cfg.AllAgree {
			return
		}
	}
	// stage 2: race all
	ctx, cancel := context.WithCancel(context.Background())
	defer cancel()
	ch := make(chan solveResult, len(solvers))
	for _, sp := range solvers {
		go func(sp solverSpec) { ch <- runSolver(ctx, sp, file, cfg.Timeout) }(sp)
	}
	var best *solveResult
	var outs []string
	t0 := time.Now()
	for range solvers {
		rr := <-ch
		outs = append(outs, fmt.Sprintf("[%s %.2fs] %s", rr.solver, rr.secs, firstLine(rr.output)))
		if rr.verdict == "unsat" || rr.verdict == "sat" {
			if best == nil {
				b := rr
				best = &b
				if !cfg.AllAgree {
					cancel()
					break
				}
			} else if best.verdict != rr.verdict {
				inst.Output = "SOLVER DISAGREEMENT: " + strings.Join(outs, " | ")
				inst.Verdict = "unknown"
				inst.Secs = total + time.Since(t0).Seconds()
				return
			}
		}
	}
	total += time.Since(t0).Seconds()
	if best != nil {
		inst.Verdict, inst.Solver, inst.Secs, inst.Output = best.verdict, best.solver, total, best.output
		if best.verdict == "sat" {
			inst.Model = best.output
		}
		return
	}
	if inst.Verdict == "" {
		inst.Verdict = "unknown"
		if strings.Contains(strings.Join(outs, " "), "timeout") {
			inst.Verdict = "timeout"
		}
		inst.Solver = "all"
		inst.Secs = total
		inst.Output = strings.Join(outs, " | ")
	}
}

func firstLine(s string) string {
	s = strings.TrimSpace(s)
	if i := strings.Index(s, "\n"); i >= 0 {
		return s[:i]
	}
	return s
}

func solveAll(obls []*Obligation, cfg *SolverCfg) {
	type job struct {
		o    *Obligation
		inst *Instance
		id   int
	}
	var jobs []job
	id := 0
	for _, o := range obls {
		for _, in := range o.Instances {
			id++
			jobs = append(jobs, job{o, in, id})
		}
	}
	ch := make(chan job)
	var wg sync.WaitGroup
	for w := 0; w < cfg.Workers; w++ {
		wg.Add(1)
		go func() {
			defer wg.Done()
			for j := range ch {
				solveInstance(j.inst, j.o.Cover, cfg, j.id)
			}
		}()
	}
	for _, j := range jobs {
		ch <- j
	}
	close(ch)
	wg.Wait()
}

// status of an obligation after solving
func (o *Obligation) status() string {
	if o.Cover {
		allUnsat := len(o.Instances) > 0
		for _, in := range o.Instances {
			if in.Verdict != "unsat" {
				allUnsat = false
			}
		}
		if allUnsat {
			return "vacuous"
		}
		return "discharged"
	}
	st := "discharged"
	for _, in := range o.Instances {
		switch in.Verdict {
		case "unsat":
		case "sat":
			return "refuted"
		default:
			st = "unknown"
		}
	}
	return st
}
