package main

import (
	"fmt"
	"strings"
	"go/token"
	"go/types"
	"math/big"

	"golang.org/x/tools/go/ssa"
)

// val evaluates an SSA value operand.
func (fx *FuncExec) val(st *State, v ssa.Value) Val {
	if r, ok := st.regs[v]; ok {
		return r
	}
	switch x := v.(type) {
	case *ssa.Const:
		if x.Value == nil {
			return st.zeroVal(x.Type())
		}
		return constVal(st, x.Value, x.Type())
	case *ssa.Global:
		id, ok := fx.globals[x]
		if !ok {
			id = fx.c.newObj()
			fx.globals[x] = id
		}
		if _, ok := st.objs[id]; !ok {
			st.objs[id] = st.freshVal(x.Type().(*types.Pointer).Elem(), x.Name(), 0)
		}
		return PtrV{Obj: id, Typ: x.Type()}
	case *ssa.Function:
		return FuncV{Fn: x, Typ: x.Type()}
	case *ssa.Builtin:
		return Scalar{Term{"ref_nil", SRef}, x.Type()}
	}
	if in, ok := v.(ssa.Instruction); ok && fx.regionBefore != nil && fx.regionBefore(in) {
		// region contract: a value computed before the region starts is arbitrary
		if a, ok := v.(*ssa.Alloc); ok {
			id := fx.c.newObj()
			st.objs[id] = st.freshVal(a.Type().(*types.Pointer).Elem(), a.Comment, 0)
			fx.entryObjs[id] = true
			r := PtrV{Obj: id, Typ: a.Type()}
			st.regs[v] = r
			return r
		}
		r := st.freshVal(v.Type(), v.Name(), 0)
		st.regs[v] = r
		return r
	}
	fx.c.unsup("operand %T not evaluated", v)
	r := st.freshVal(v.Type(), v.Name(), 0)
	st.regs[v] = r
	return r
}

func (fx *FuncExec) scalarTerm(st *State, v Val, sort string) Term {
	switch x := v.(type) {
	case Scalar:
		return x.T
	case ConstV:
		return st.toLeaf(x, sort)
	}
	return fx.c.fresh("nonscalar", sort)
}

func (fx *FuncExec) safe(ps *pathState, in ssa.Instruction, kind, text string, goal Term) {
	if fx.con != nil && fx.con.NoSafety {
		// partial correctness only: the run-time check is assumed to pass (listed in the evidence)
		ps.st.assume(goal)
		return
	}
	fx.pendingReplay = &ReplayInfo{fx: fx, kind: "safe"}
	fx.addObl(fmt.Sprintf("safe:%s#%d", kind, fx.siteOrd[in]), "safe", fx.propDefault(), text, fx.posStr(in.Pos()), false, ps.st, goal, ps.trail)
	fx.pendingReplay = nil
	// continue under the assumption that the check passed (it is reported separately)
	ps.st.assume(goal)
}

// nilCheck: dereference of p
func (fx *FuncExec) nilCheck(ps *pathState, in ssa.Instruction, p PtrV) bool {
	if p.Sym != "" {
		// unknown pointer: it must not be nil (obligation), then it is resolved lazily
		fx.safe(ps, in, "nil", "nil pointer dereference", tNot(tEq(Term{p.Sym, SRef}, Term{"ref_nil", SRef})))
		_, ok := ps.st.resolve(p)
		return ok
	}
	if p.Obj == 0 {
		fx.safe(ps, in, "nil", "nil pointer dereference", tFalse)
		return false
	}
	return true
}

func (fx *FuncExec) step(ps *pathState, in ssa.Instruction, pred *ssa.BasicBlock) {
	st := ps.st
	c := fx.c
	switch x := in.(type) {
	case *ssa.DebugRef, *ssa.RunDefers:
		return
	case *ssa.Alloc:
		id := c.newObj()
		st.objs[id] = st.zeroVal(x.Type().(*types.Pointer).Elem())
		st.regs[x] = PtrV{Obj: id, Typ: x.Type()}
	case *ssa.Store:
		pv := fx.val(st, x.Addr)
		v := fx.val(st, x.Val)
		p, ok := pv.(PtrV)
		if !ok || !fx.nilCheck(ps, in, p) {
			return
		}
		if p.Sym != "" {
			p, _ = st.resolve(p)
		}
		v = fx.adapt(st, v, x.Addr.Type().(*types.Pointer).Elem())
		if !st.store(p, v) {
			c.unsup("store failed at %s", fx.posStr(in.Pos()))
		}
	case *ssa.UnOp:
		switch x.Op {
		case token.MUL:
			pv := fx.val(st, x.X)
			p, ok := pv.(PtrV)
			if ok && p.Sym == "" && p.Obj == 0 {
				fx.safe(ps, in, "nil", "nil pointer dereference", tFalse)
				st.regs[x] = st.freshVal(x.Type(), x.Name(), 0)
				return
			}
			if ok {
				if p.Sym != "" {
					fx.nilCheck(ps, in, p)
				}
				if lv, ok := st.load(p); ok {
					st.regs[x] = lv
					return
				}
			}
			st.regs[x] = st.freshVal(x.Type(), x.Name(), 0)
		case token.ARROW:
			c.unsup("channel receive")
			st.regs[x] = st.freshVal(x.Type(), x.Name(), 0)
		default:
			st.regs[x] = st.unop(x.Op, fx.val(st, x.X), false)
		}
	case *ssa.BinOp:
		a, b := fx.val(st, x.X), fx.val(st, x.Y)
		if x.Op == token.QUO || x.Op == token.REM {
			if bs, ok := b.(Scalar); ok {
				if _, isint := fx.pk.intInfo(bs.Typ); isint {
					fx.safe(ps, in, "div", "division by zero", tNot(tEq(bs.T, zeroOf(bs.T.Sort))))
				}
			}
		}
		if x.Op == token.SHL || x.Op == token.SHR {
			if bs, ok := b.(Scalar); ok {
				if ii, isint := fx.pk.intInfo(bs.Typ); isint && ii.signed {
					if ii.bv {
						fx.safe(ps, in, "shift", "negative shift count", app(SBool, "bvsge", bs.T, zeroOf(bs.T.Sort)))
					} else {
						fx.safe(ps, in, "shift", "negative shift count", tLe(intLit(0), bs.T))
					}
				}
			}
		}
		r := st.binop(x.Op, a, b, false)
		if sc, ok := r.(Scalar); ok {
			sc.Typ = x.Type()
			// expensive bit-vector terms get a name: later reasoning about them is then mostly
			// equational (the definition stays available to the solver)
			if _, isbv := isBV(sc.T.Sort); isbv && (x.Op == token.MUL || x.Op == token.QUO || x.Op == token.REM) {
				if _, lit := litValue(sc.T); !lit {
					n := c.fresh(x.Name(), sc.T.Sort)
					st.assume(tEq(n, sc.T))
					sc.T = n
				}
			}
			r = sc
		}
		st.regs[x] = r
	case *ssa.FieldAddr:
		pv := fx.val(st, x.X)
		p, ok := pv.(PtrV)
		ft := x.Type()
		if !ok || !fx.nilCheck(ps, in, p) {
			st.regs[x] = PtrV{Sym: c.fresh("fieldaddr", SRef).S, Typ: ft}
			return
		}
		if p.Sym != "" {
			p, _ = st.resolve(p)
		}
		st.regs[x] = PtrV{Obj: p.Obj, Sym: p.Sym, Root: p.Root, Path: append(append([]Step(nil), p.Path...), Step{Field: x.Field}), Typ: ft}
	case *ssa.Field:
		v := fx.val(st, x.X)
		if sv, ok := v.(StructV); ok {
			st.regs[x] = sv.F[x.Field]
		} else {
			st.regs[x] = st.freshVal(x.Type(), x.Name(), 0)
		}
	case *ssa.IndexAddr:
		base := fx.val(st, x.X)
		iv := fx.val(st, x.Index)
		idx := fx.indexTerm(st, iv)
		switch b := base.(type) {
		case SliceV:
			fx.safe(ps, in, "index", "index in range", tAnd(tLe(intLit(0), idx), tLt(idx, b.Len)))
			if b.Arr == 0 {
				st.regs[x] = PtrV{Sym: c.fresh("elemaddr", SRef).S, Typ: x.Type()}
				return
			}
			st.regs[x] = PtrV{Obj: b.Arr, Path: []Step{{Field: -1, Idx: tAdd(b.Off, idx)}}, Typ: x.Type()}
		case PtrV:
			// pointer to array
			n := int64(-1)
			if at, ok := x.X.Type().(*types.Pointer).Elem().Underlying().(*types.Array); ok {
				n = at.Len()
			}
			fx.safe(ps, in, "index", "index in range", tAnd(tLe(intLit(0), idx), tLt(idx, intLit(n))))
			if !fx.nilCheck(ps, in, b) {
				st.regs[x] = PtrV{Sym: c.fresh("elemaddr", SRef).S, Typ: x.Type()}
				return
			}
			if b.Sym != "" {
				b, _ = st.resolve(b)
			}
			st.regs[x] = PtrV{Obj: b.Obj, Sym: b.Sym, Root: b.Root, Path: append(append([]Step(nil), b.Path...), Step{Field: -1, Idx: idx}), Typ: x.Type()}
		default:
			c.unsup("IndexAddr on %T", base)
			st.regs[x] = PtrV{Sym: c.fresh("elemaddr", SRef).S, Typ: x.Type()}
		}
	case *ssa.Index:
		base := fx.val(st, x.X)
		idx := fx.indexTerm(st, fx.val(st, x.Index))
		switch b := base.(type) {
		case SeqV:
			fx.safe(ps, in, "index", "index in range", tAnd(tLe(intLit(0), idx), tLt(idx, b.N)))
			st.regs[x] = st.treeSelect(b.Tree, idx)
		case Scalar:
			if b.T.Sort == SStr {
				fx.safe(ps, in, "index", "index in range", tAnd(tLe(intLit(0), idx), tLt(idx, app(SInt, "strlen", b.T))))
				r := app(SInt, "str_at", b.T, idx)
				st.assume(tAnd(tLe(intLit(0), r), tLe(r, intLit(255))))
				st.regs[x] = fx.adapt(st, Scalar{r, types.Typ[types.Int]}, x.Type())
				return
			}
			st.regs[x] = st.freshVal(x.Type(), x.Name(), 0)
		default:
			st.regs[x] = st.freshVal(x.Type(), x.Name(), 0)
		}
	case *ssa.Slice:
		fx.sliceInstr(ps, x)
	case *ssa.Phi:
		for i, p := range x.Block().Preds {
			if p == pred {
				st.regs[x] = fx.val(st, x.Edges[i])
				return
			}
		}
		st.regs[x] = st.freshVal(x.Type(), x.Name(), 0)
	case *ssa.Convert:
		r := st.convert(fx.val(st, x.X), x.Type())
		if sc, ok := r.(Scalar); ok && strings.HasPrefix(sc.T.S, "(int2bv@") {
			n := c.fresh(x.Name(), sc.T.Sort)
			st.assume(tEq(n, sc.T))
			sc.T = n
			r = sc
		}
		st.regs[x] = r
	case *ssa.ChangeType:
		st.regs[x] = retype(fx.val(st, x.X), x.Type())
	case *ssa.MakeInterface:
		st.regs[x] = IfaceV{Dyn: x.X.Type(), V: fx.val(st, x.X), Typ: x.Type()}
	case *ssa.ChangeInterface:
		st.regs[x] = retype(fx.val(st, x.X), x.Type())
	case *ssa.MakeClosure:
		fv := FuncV{Fn: x.Fn.(*ssa.Function), Typ: x.Type()}
		for _, b := range x.Bindings {
			fv.Bindings = append(fv.Bindings, fx.val(st, b))
		}
		st.regs[x] = fv
	case *ssa.MakeSlice:
		ln := fx.indexTerm(st, fx.val(st, x.Len))
		cp := fx.indexTerm(st, fx.val(st, x.Cap))
		fx.safe(ps, in, "make", "make: 0 <= len <= cap", tAnd(tLe(intLit(0), ln), tLe(ln, cp)))
		st.assume(tLe(cp, bigLit(pow2(maxLenBits))))
		id := c.newObj()
		et := x.Type().Underlying().(*types.Slice).Elem()
		st.objs[id] = SeqV{Tree: fx.pk.seqTreeOf(c, et, "", true), Typ: et}
		st.regs[x] = SliceV{Arr: id, Off: intLit(0), Len: ln, Cap: cp, Nil: tFalse, Typ: x.Type()}
	case *ssa.MakeMap:
		m := st.zeroVal(x.Type()).(MapV)
		m.Nil = tFalse
		st.regs[x] = m
	case *ssa.Extract:
		tv := fx.val(st, x.Tuple)
		if t, ok := tv.(TupleV); ok && x.Index < len(t.E) {
			st.regs[x] = t.E[x.Index]
		} else {
			st.regs[x] = st.freshVal(x.Type(), x.Name(), 0)
		}
	case *ssa.Call:
		fx.call(ps, x)
	case *ssa.Lookup:
		fx.lookup(ps, x)
	case *ssa.MapUpdate:
		fx.mapUpdate(ps, x)
	case *ssa.TypeAssert:
		fx.typeAssert(ps, x)
	case *ssa.Range:
		if _, ok := x.X.Type().Underlying().(*types.Map); ok {
			// the iterator remembers the map as it is now; Next reads the live map where it can
			st.regs[x] = fx.val(st, x.X)
			delete(st.iterVisited, x)
			return
		}
		c.unsup("range over string at %s", fx.posStr(in.Pos()))
		st.regs[x] = Scalar{c.fresh("iter", SRef), x.Type()}
	case *ssa.Next:
		if rg, ok := x.Iter.(*ssa.Range); ok && !x.IsString {
			if m, ok := fx.liveMap(st, rg).(MapV); ok {
				// an arbitrary key of the map (iteration order is unspecified); every iteration sees a key
				// that is present at that moment, with its current value
				mt := m.Typ.Underlying().(*types.Map)
				okT := c.fresh("next.ok", SBool)
				kv := st.freshVal(mt.Key(), "next.key", 0)
				k := st.toLeaf(kv, st.keySort(mt.Key()))
				st.assume(tImplies(okT, app(SBool, "select", m.Dom, k)))
				st.assume(tImplies(okT, tLt(intLit(0), m.Len)))
				// ghost: the keys visited so far; a key is visited at most once, and when the iteration
				// ends every key of the map has been visited
				ks := st.keySort(mt.Key())
				vsort := "(Array " + ks + " Bool)"
				vis, have := st.iterVisited[rg]
				if !have {
					vis = Term{"((as const " + vsort + ") false)", vsort}
				}
				st.assume(tImplies(okT, tNot(app(SBool, "select", vis, k))))
				bk := c.boundName("vk")
				st.assume(tImplies(tNot(okT), Term{fmt.Sprintf("(forall ((%s %s)) (=> (select %s %s) (select %s %s)))", bk, ks, m.Dom.S, bk, vis.S, bk), SBool}))
				if st.iterVisited == nil {
					st.iterVisited = map[*ssa.Range]Term{}
				}
				st.iterVisited[rg] = tIte(okT, app(vsort, "store", vis, k, tTrue), vis)
				st.iterBefore = vis
				v := st.mapSelect(m, k)
				st.regs[x] = TupleV{E: []Val{Scalar{okT, types.Typ[types.Bool]}, kv, v}}
				return
			}
		}
		st.regs[x] = st.freshVal(x.Type(), x.Name(), 0)
	case *ssa.Defer:
		c.unsup("defer at %s (deferred call not executed)", fx.posStr(in.Pos()))
	case *ssa.Go:
		c.unsup("go statement at %s", fx.posStr(in.Pos()))
	case *ssa.Send, *ssa.Select:
		c.unsup("channel operation at %s", fx.posStr(in.Pos()))
		if v, ok := in.(ssa.Value); ok {
			st.regs[v] = st.freshVal(v.Type(), v.Name(), 0)
		}
	case *ssa.SliceToArrayPointer:
		c.unsup("slice to array pointer conversion")
		st.regs[x] = st.freshVal(x.Type(), x.Name(), 0)
	default:
		c.unsup("instruction %T", in)
		if v, ok := in.(ssa.Value); ok {
			st.regs[v] = st.freshVal(v.Type(), v.Name(), 0)
		}
	}
}

func retype(v Val, t types.Type) Val {
	switch x := v.(type) {
	case Scalar:
		x.Typ = t
		return x
	case StructV:
		x.Typ = t
		return x
	case SliceV:
		x.Typ = t
		return x
	case PtrV:
		x.Typ = t
		return x
	case IfaceV:
		x.Typ = t
		return x
	case MapV:
		x.Typ = t
		return x
	case SeqV:
		return x
	}
	return v
}

// adapt: make an untyped constant / nil take the stored type.
func (fx *FuncExec) adapt(st *State, v Val, t types.Type) Val {
	switch x := v.(type) {
	case ConstV:
		if ii, ok := fx.pk.intInfo(t); ok {
			return Scalar{st.toLeaf(x, ii.sort()), t}
		}
	case Scalar:
		if isUntypedNil(x) {
			return st.zeroVal(t)
		}
		if ii, ok := fx.pk.intInfo(t); ok && x.T.Sort != ii.sort() {
			return st.convert(x, t)
		}
	}
	return v
}

func (fx *FuncExec) indexTerm(st *State, v Val) Term {
	switch x := v.(type) {
	case nil:
		return intLit(0)
	case ConstV:
		return bigLit(x.N)
	case Scalar:
		if x.T.Sort == SInt {
			return x.T
		}
		if _, ok := isBV(x.T.Sort); ok {
			ii, _ := fx.pk.intInfo(x.Typ)
			return st.bvToInt(x.T, ii)
		}
	}
	return fx.c.fresh("idx", SInt)
}

func (fx *FuncExec) sliceInstr(ps *pathState, x *ssa.Slice) {
	st := ps.st
	c := fx.c
	base := fx.val(st, x.X)
	var lo, hi, mx Term
	has := func(v ssa.Value) bool { return v != nil }
	if has(x.Low) {
		lo = fx.indexTerm(st, fx.val(st, x.Low))
	} else {
		lo = intLit(0)
	}
	switch b := base.(type) {
	case SliceV:
		if has(x.High) {
			hi = fx.indexTerm(st, fx.val(st, x.High))
		} else {
			hi = b.Len
		}
		if has(x.Max) {
			mx = fx.indexTerm(st, fx.val(st, x.Max))
		} else {
			mx = b.Cap
		}
		fx.safe(ps, x, "slice", "slice bounds in range", tAnd(tLe(intLit(0), lo), tLe(lo, hi), tLe(hi, mx), tLe(mx, b.Cap)))
		st.regs[x] = SliceV{Arr: b.Arr, Off: tAdd(b.Off, lo), Len: tSub(hi, lo), Cap: tSub(mx, lo), Nil: b.Nil, Typ: x.Type()}
	case PtrV:
		at, ok := x.X.Type().(*types.Pointer).Elem().Underlying().(*types.Array)
		if !ok || !fx.nilCheck(ps, x, b) || len(b.Path) != 0 {
			if ok && len(b.Path) != 0 {
				c.unsup("slicing an array nested in another object")
			}
			st.regs[x] = st.freshVal(x.Type(), x.Name(), 0)
			return
		}
		n := intLit(at.Len())
		if has(x.High) {
			hi = fx.indexTerm(st, fx.val(st, x.High))
		} else {
			hi = n
		}
		fx.safe(ps, x, "slice", "slice bounds in range", tAnd(tLe(intLit(0), lo), tLe(lo, hi), tLe(hi, n)))
		st.regs[x] = SliceV{Arr: b.Obj, Off: lo, Len: tSub(hi, lo), Cap: tSub(n, lo), Nil: tFalse, Typ: x.Type()}
	case Scalar:
		if b.T.Sort == SStr {
			ln := app(SInt, "strlen", b.T)
			if has(x.High) {
				hi = fx.indexTerm(st, fx.val(st, x.High))
			} else {
				hi = ln
			}
			fx.safe(ps, x, "slice", "string slice bounds in range", tAnd(tLe(intLit(0), lo), tLe(lo, hi), tLe(hi, ln)))
			r := c.fresh("substr", SStr)
			st.assume(tEq(app(SInt, "strlen", r), tSub(hi, lo)))
			st.regs[x] = Scalar{r, x.Type()}
			return
		}
		st.regs[x] = st.freshVal(x.Type(), x.Name(), 0)
	default:
		c.unsup("slice of %T", base)
		st.regs[x] = st.freshVal(x.Type(), x.Name(), 0)
	}
}

// ---------------------------------------------------------------------------
// Maps, type assertions
// ---------------------------------------------------------------------------

func (fx *FuncExec) lookup(ps *pathState, x *ssa.Lookup) {
	st := ps.st
	base := fx.val(st, x.X)
	switch m := base.(type) {
	case MapV:
		mt := m.Typ.Underlying().(*types.Map)
		k := st.toLeaf(fx.adapt(st, fx.val(st, x.Index), mt.Key()), st.keySort(mt.Key()))
		in := app(SBool, "select", m.Dom, k)
		v := st.mapSelect(m, k)
		// absent keys read as the zero value
		zv := st.zeroVal(mt.Elem())
		v = fx.iteValOrFresh(st, in, v, zv)
		if x.CommaOk {
			st.regs[x] = TupleV{E: []Val{v, Scalar{in, types.Typ[types.Bool]}}}
		} else {
			st.regs[x] = v
		}
	case Scalar:
		if m.T.Sort == SStr {
			idx := fx.indexTerm(st, fx.val(st, x.Index))
			fx.safe(ps, x, "index", "index in range", tAnd(tLe(intLit(0), idx), tLt(idx, app(SInt, "strlen", m.T))))
			r := app(SInt, "str_at", m.T, idx)
			st.assume(tAnd(tLe(intLit(0), r), tLe(r, intLit(255))))
			st.regs[x] = fx.adapt(st, Scalar{r, types.Typ[types.Int]}, x.Type())
			return
		}
		st.regs[x] = st.freshVal(x.Type(), x.Name(), 0)
	default:
		st.regs[x] = st.freshVal(x.Type(), x.Name(), 0)
	}
}

func (fx *FuncExec) iteValOrFresh(st *State, c Term, a, b Val) Val {
	switch x := a.(type) {
	case Scalar:
		if y, ok := b.(Scalar); ok && x.T.Sort == y.T.Sort {
			return Scalar{tIte(c, x.T, y.T), x.Typ}
		}
	case StructV:
		if y, ok := b.(StructV); ok && len(x.F) == len(y.F) {
			out := StructV{Typ: x.Typ}
			for i := range x.F {
				out.F = append(out.F, fx.iteValOrFresh(st, c, x.F[i], y.F[i]))
			}
			return out
		}
	case PtrV:
		if y, ok := b.(PtrV); ok && x.Sym != "" && y.Sym == "" && y.Obj == 0 {
			return PtrV{Sym: tIte(c, Term{x.Sym, SRef}, Term{"ref_nil", SRef}).S, Typ: x.Typ}
		}
	case IfaceV:
		if y, ok := b.(IfaceV); ok && x.Dyn == nil && y.Dyn == nil {
			return IfaceV{Tag: tIte(c, x.Tag, y.Tag), Typ: x.Typ}
		}
	}
	// shape not mergeable: unknown value when the key may be absent
	if c.S == "true" {
		return a
	}
	return st.freshVal(a.Type(), "lookup", 0)
}

func (fx *FuncExec) mapUpdate(ps *pathState, x *ssa.MapUpdate) {
	st := ps.st
	// the map operand is a value loaded from some cell; find that cell to write back
	base := fx.val(st, x.Map)
	m, ok := base.(MapV)
	if !ok {
		fx.c.unsup("map update on %T", base)
		return
	}
	fx.safe(ps, x, "mapupdate", "assignment to entry in nil map", tNot(m.Nil))
	// rule-site assertions can be anchored at a map assignment: `assert before call mapupdate#k`
	fx.siteAsserts(ps, fmt.Sprintf("mapupdate#%d", fx.siteOrd[x]), "before", nil)
	mt := m.Typ.Underlying().(*types.Map)
	k := st.toLeaf(fx.adapt(st, fx.val(st, x.Key), mt.Key()), st.keySort(mt.Key()))
	v := fx.adapt(st, fx.val(st, x.Value), mt.Elem())
	nm := m
	was := app(SBool, "select", m.Dom, k)
	nm.Dom = app(m.Dom.Sort, "store", m.Dom, k, tTrue)
	nm.Vals = st.treeKStore(m.Vals, k, v)
	nm.Len = tIte(was, m.Len, tAdd(m.Len, intLit(1)))
	fx.writeBackMap(ps, x.Map, m, nm)
}

func (s *State) treeKStore(tr SeqTreeK, k Term, v Val) SeqTreeK {
	if tr.Fields != nil || isStruct(tr.Typ) {
		out := SeqTreeK{Typ: tr.Typ}
		sv, ok := v.(StructV)
		for i, f := range tr.Fields {
			if ok {
				out.Fields = append(out.Fields, s.treeKStore(f, k, sv.F[i]))
			} else {
				out.Fields = append(out.Fields, f)
			}
		}
		return out
	}
	es := tr.Arr.Sort
	_ = es
	elemSort := lastSortArg(tr.Arr.Sort)
	return SeqTreeK{Arr: app(tr.Arr.Sort, "store", tr.Arr, k, s.toLeaf(v, elemSort)), Typ: tr.Typ}
}

func lastSortArg(arr string) string {
	// "(Array K E)" -> E ; K and E may be parenthesised
	s := arr[len("(Array ") : len(arr)-1]
	depth := 0
	for i, r := range s {
		switch r {
		case '(':
			depth++
		case ')':
			depth--
		case ' ':
			if depth == 0 {
				return s[i+1:]
			}
		}
	}
	return s
}

// writeBackMap: Go maps are references. We model them as values stored in
// cells; an update is written back to every cell that currently holds the old
// map value (same domain term), which covers the aliasing that occurs in
// straight-line code.
func (fx *FuncExec) writeBackMap(ps *pathState, src ssa.Value, old, nm MapV) {
	st := ps.st
	// a map held in a field of a heap object: write the new map value to that field
	if u, ok := src.(*ssa.UnOp); ok && u.Op == token.MUL {
		if p, ok := st.regs[u.X].(PtrV); ok && isHeapPtr(p) {
			st.store(p, nm)
		}
	}
	for id, v := range st.objs {
		st.objs[id] = replaceMap(v, old, nm)
	}
	for k, v := range st.regs {
		if mv, ok := v.(MapV); ok && mv.Dom.S == old.Dom.S && mv.Vals.Arr.S == old.Vals.Arr.S {
			st.regs[k] = nm
		}
	}
}

func replaceMap(v Val, old, nm MapV) Val {
	switch x := v.(type) {
	case MapV:
		if x.Dom.S == old.Dom.S && fmt.Sprint(x.Vals) == fmt.Sprint(old.Vals) {
			return nm
		}
	case StructV:
		changed := false
		out := StructV{Typ: x.Typ, F: make([]Val, len(x.F))}
		for i, f := range x.F {
			out.F[i] = replaceMap(f, old, nm)
			if !changed && !sameVal(out.F[i], f) {
				changed = true
			}
		}
		if changed {
			return out
		}
	}
	return v
}

func (fx *FuncExec) typeAssert(ps *pathState, x *ssa.TypeAssert) {
	st := ps.st
	v := fx.val(st, x.X)
	iv, ok := v.(IfaceV)
	var res Val
	okT := fx.c.fresh("typeok", SBool)
	if ok && iv.Dyn != nil {
		if types.Identical(iv.Dyn, x.AssertedType) {
			res, okT = iv.V, tTrue
		} else if _, isIface := x.AssertedType.Underlying().(*types.Interface); isIface {
			res = retype(iv, x.AssertedType)
			if types.Implements(iv.Dyn, x.AssertedType.Underlying().(*types.Interface)) {
				okT = tTrue
			} else {
				okT = tFalse
			}
		} else {
			res, okT = st.zeroVal(x.AssertedType), tFalse
		}
	} else {
		res = st.freshVal(x.AssertedType, x.Name(), 0)
	}
	if x.CommaOk {
		st.regs[x] = TupleV{E: []Val{res, Scalar{okT, types.Typ[types.Bool]}}}
		return
	}
	fx.safe(ps, x, "typeassert", "type assertion holds", okT)
	st.regs[x] = res
}

var _ = big.NewInt

// liveMap: the map a range statement iterates over, as it is now (re-read from its location when the
// range operand is a load), else as it was when the loop started.
func (fx *FuncExec) liveMap(st *State, rg *ssa.Range) Val {
	if u, ok := rg.X.(*ssa.UnOp); ok && u.Op == token.MUL {
		if p, ok := st.regs[u.X].(PtrV); ok {
			if v, ok := st.load(p); ok {
				return v
			}
		}
	}
	return st.regs[rg]
}
