package main

import (
	"fmt"
	"math/big"
	"strings"
)

// Term is an SMT-LIB term with its sort. Terms are built as strings; the
// only structure we keep is the sort, which is enough for the translation.
type Term struct {
	S    string
	Sort string
}

const (
	SInt  = "Int"
	SBool = "Bool"
	SStr  = "Str" // uninterpreted sort for Go strings
	SRef  = "Ref" // uninterpreted sort for opaque values / object identities
)

func bvSort(n int) string { return fmt.Sprintf("(_ BitVec %d)", n) }
func isBV(s string) (int, bool) {
	var n int
	if _, err := fmt.Sscanf(s, "(_ BitVec %d)", &n); err == nil {
		return n, true
	}
	return 0, false
}
func arrSort(elem string) string { return "(Array Int " + elem + ")" }

var (
	tTrue  = Term{"true", SBool}
	tFalse = Term{"false", SBool}
)

func intLit(n int64) Term {
	if n < 0 {
		return Term{fmt.Sprintf("(- %d)", -n), SInt}
	}
	return Term{fmt.Sprintf("%d", n), SInt}
}

func bigLit(n *big.Int) Term {
	if n.Sign() < 0 {
		return Term{"(- " + new(big.Int).Neg(n).String() + ")", SInt}
	}
	return Term{n.String(), SInt}
}

func bvLit(n *big.Int, bits int) Term {
	m := new(big.Int).Lsh(big.NewInt(1), uint(bits))
	v := new(big.Int).Mod(n, m)
	return Term{fmt.Sprintf("(_ bv%s %d)", v.String(), bits), bvSort(bits)}
}

func app(sort string, f string, args ...Term) Term {
	var b strings.Builder
	b.WriteString("(")
	b.WriteString(f)
	for _, a := range args {
		b.WriteString(" ")
		b.WriteString(a.S)
	}
	b.WriteString(")")
	return Term{b.String(), sort}
}

func tNot(a Term) Term {
	switch a.S {
	case "true":
		return tFalse
	case "false":
		return tTrue
	}
	if strings.HasPrefix(a.S, "(not ") {
		return Term{a.S[5 : len(a.S)-1], SBool}
	}
	return app(SBool, "not", a)
}

func tAnd(as ...Term) Term {
	var keep []Term
	for _, a := range as {
		if a.S == "true" {
			continue
		}
		if a.S == "false" {
			return tFalse
		}
		keep = append(keep, a)
	}
	switch len(keep) {
	case 0:
		return tTrue
	case 1:
		return keep[0]
	}
	return app(SBool, "and", keep...)
}

func tOr(as ...Term) Term {
	var keep []Term
	for _, a := range as {
		if a.S == "false" {
			continue
		}
		if a.S == "true" {
			return tTrue
		}
		keep = append(keep, a)
	}
	switch len(keep) {
	case 0:
		return tFalse
	case 1:
		return keep[0]
	}
	return app(SBool, "or", keep...)
}

func tImplies(a, b Term) Term {
	if a.S == "true" {
		return b
	}
	if a.S == "false" || b.S == "true" {
		return tTrue
	}
	return app(SBool, "=>", a, b)
}

func tIte(c, a, b Term) Term {
	if c.S == "true" {
		return a
	}
	if c.S == "false" {
		return b
	}
	if a.S == b.S {
		return a
	}
	return app(a.Sort, "ite", c, a, b)
}

func tEq(a, b Term) Term {
	if a.S == b.S {
		return tTrue
	}
	return app(SBool, "=", a, b)
}

func tSelect(arr, idx Term) Term {
	// (Array Int X) -> X
	elem := strings.TrimSuffix(strings.TrimPrefix(arr.Sort, "(Array Int "), ")")
	return app(elem, "select", arr, idx)
}

func tStore(arr, idx, v Term) Term { return app(arr.Sort, "store", arr, idx, v) }

func tAdd(a, b Term) Term {
	if b.S == "0" {
		return a
	}
	if a.S == "0" {
		return b
	}
	return app(SInt, "+", a, b)
}
func tSub(a, b Term) Term {
	if b.S == "0" {
		return a
	}
	return app(SInt, "-", a, b)
}
func tLe(a, b Term) Term { return app(SBool, "<=", a, b) }
func tLt(a, b Term) Term { return app(SBool, "<", a, b) }

func pow2(n int) *big.Int { return new(big.Int).Lsh(big.NewInt(1), uint(n)) }

// zero value of a sort
func zeroOf(sort string) Term {
	switch sort {
	case SInt:
		return intLit(0)
	case SBool:
		return tFalse
	case SStr:
		return Term{"str_empty", SStr}
	case SRef:
		return Term{"ref_nil", SRef}
	}
	if n, ok := isBV(sort); ok {
		return bvLit(big.NewInt(0), n)
	}
	if strings.HasPrefix(sort, "(Array Int ") {
		elem := strings.TrimSuffix(strings.TrimPrefix(sort, "(Array Int "), ")")
		return Term{"((as const " + sort + ") " + zeroOf(elem).S + ")", sort}
	}
	panic("zeroOf: " + sort)
}
