package main

import (
	"fmt"
	"os"
	"math/big"
	"strings"
)

// Term is an SMT-LIB term with its sort. Terms are built as strings; the
// only structure we keep is the sort, which is enough for the translation.
type Term struct {
	S    string
	Sort string
}

const (
	SInt  = "Int"
	SBool = "Bool"
	SStr  = "Str" // uninterpreted sort for Go strings
	SRef  = "Ref" // uninterpreted sort for opaque values / object identities
)

func bvSort(n int) string { return fmt.Sprintf("(_ BitVec %d)", n) }
func isBV(s string) (int, bool) {
	var n int
	if _, err := fmt.Sscanf(s, "(_ BitVec %d)", &n); err == nil {
		return n, true
	}
	return 0, false
}
func arrSort(elem string) string { return "(Array Int " + elem + ")" }

var (
	tTrue  = Term{"true", SBool}
	tFalse = Term{"false", SBool}
)

func intLit(n int64) Term {
	if n < 0 {
		return Term{fmt.Sprintf("(- %d)", -n), SInt}
	}
	return Term{fmt.Sprintf("%d", n), SInt}
}

func bigLit(n *big.Int) Term {
	if n.Sign() < 0 {
		return Term{"(- " + new(big.Int).Neg(n).String() + ")", SInt}
	}
	return Term{n.String(), SInt}
}

func bvLit(n *big.Int, bits int) Term {
	m := new(big.Int).Lsh(big.NewInt(1), uint(bits))
	v := new(big.Int).Mod(n, m)
	return Term{fmt.Sprintf("(_ bv%s %d)", v.String(), bits), bvSort(bits)}
}

func app(sort string, f string, args ...Term) Term {
	var b strings.Builder
	b.WriteString("(")
	b.WriteString(f)
	for _, a := range args {
		b.WriteString(" ")
		b.WriteString(a.S)
	}
	b.WriteString(")")
	return Term{b.String(), sort}
}

func tNot(a Term) Term {
	switch a.S {
	case "true":
		return tFalse
	case "false":
		return tTrue
	}
	if strings.HasPrefix(a.S, "(not ") {
		return Term{a.S[5 : len(a.S)-1], SBool}
	}
	return app(SBool, "not", a)
}

func tAnd(as ...Term) Term {
	var keep []Term
	for _, a := range as {
		if a.S == "true" {
			continue
		}
		if a.S == "false" {
			return tFalse
		}
		keep = append(keep, a)
	}
	switch len(keep) {
	case 0:
		return tTrue
	case 1:
		return keep[0]
	}
	return app(SBool, "and", keep...)
}

func tOr(as ...Term) Term {
	var keep []Term
	for _, a := range as {
		if a.S == "false" {
			continue
		}
		if a.S == "true" {
			return tTrue
		}
		keep = append(keep, a)
	}
	switch len(keep) {
	case 0:
		return tFalse
	case 1:
		return keep[0]
	}
	return app(SBool, "or", keep...)
}

func tImplies(a, b Term) Term {
	if a.S == "true" {
		return b
	}
	if a.S == "false" || b.S == "true" {
		return tTrue
	}
	return app(SBool, "=>", a, b)
}

func tIte(c, a, b Term) Term {
	if c.S == "true" {
		return a
	}
	if c.S == "false" {
		return b
	}
	if a.S == b.S {
		return a
	}
	return app(a.Sort, "ite", c, a, b)
}

func tEq(a, b Term) Term {
	if a.S == b.S {
		return tTrue
	}
	return app(SBool, "=", a, b)
}

// elemSort: (Array K X) -> X
func elemSort(arrSort string) string {
	if ch, ok := sexprChildren(arrSort); ok && len(ch) == 3 && ch[0] == "Array" {
		return ch[2]
	}
	return strings.TrimSuffix(strings.TrimPrefix(arrSort, "(Array Int "), ")")
}

func tSelect(arr, idx Term) Term {
	elem := elemSort(arr.Sort)
	// select(store(a, i, v), i) = v (syntactic)
	if strings.HasPrefix(arr.S, "(store ") {
		if ch, ok := sexprChildren(arr.S); ok && len(ch) == 4 && ch[2] == idx.S {
			return Term{ch[3], elem}
		}
	}
	return app(elem, "select", arr, idx)
}

func tStore(arr, idx, v Term) Term { return app(arr.Sort, "store", arr, idx, v) }

func tAdd(a, b Term) Term {
	if b.S == "0" {
		return a
	}
	if a.S == "0" {
		return b
	}
	return app(SInt, "+", a, b)
}
func tSub(a, b Term) Term {
	if b.S == "0" {
		return a
	}
	return app(SInt, "-", a, b)
}
func tLe(a, b Term) Term { return app(SBool, "<=", a, b) }
func tLt(a, b Term) Term { return app(SBool, "<", a, b) }

func pow2(n int) *big.Int { return new(big.Int).Lsh(big.NewInt(1), uint(n)) }

// zero value of a sort
func zeroOf(sort string) Term {
	switch sort {
	case SInt:
		return intLit(0)
	case SBool:
		return tFalse
	case SStr:
		return Term{"str_empty", SStr}
	case SRef:
		return Term{"ref_nil", SRef}
	}
	if n, ok := isBV(sort); ok {
		return bvLit(big.NewInt(0), n)
	}
	if strings.HasPrefix(sort, "(Array Int ") {
		elem := strings.TrimSuffix(strings.TrimPrefix(sort, "(Array Int "), ")")
		if elem == SRef || elem == SStr {
			// uninterpreted constants are not values (cvc5 rejects them in constant arrays)
			return Term{"zeroarr_Int_" + elem, sort}
		}
		return Term{"((as const " + sort + ") " + zeroOf(elem).S + ")", sort}
	}
	panic("zeroOf: " + sort)
}

// sexprChildren splits "(f a b c)" into ["f","a","b","c"]; ok=false if s is an atom.
func sexprChildren(s string) ([]string, bool) {
	if len(s) < 2 || s[0] != '(' || s[len(s)-1] != ')' {
		return nil, false
	}
	body := s[1 : len(s)-1]
	var out []string
	depth := 0
	start := -1
	inBar := false
	for i := 0; i < len(body); i++ {
		ch := body[i]
		if inBar {
			if ch == '|' {
				inBar = false
			}
			continue
		}
		switch ch {
		case '|':
			inBar = true
			if start < 0 {
				start = i
			}
		case '(':
			if depth == 0 && start < 0 {
				start = i
			}
			depth++
		case ')':
			depth--
			if depth == 0 && start >= 0 && body[start] == '(' {
				out = append(out, body[start:i+1])
				start = -1
			}
		case ' ', '\n', '\t':
			if depth == 0 && start >= 0 {
				out = append(out, body[start:i])
				start = -1
			}
		default:
			if start < 0 {
				start = i
			}
		}
	}
	if start >= 0 {
		out = append(out, body[start:])
	}
	return out, true
}

// splitGoal breaks a goal into conjuncts: (and ..), (=> p (and ..)), (ite c a b).
func splitGoal(g Term, limit int) []Term {
	if limit <= 0 {
		return []Term{g}
	}
	ch, ok := sexprChildren(g.S)
	if !ok || len(ch) == 0 {
		return []Term{g}
	}
	switch ch[0] {
	case "and":
		// a && b && c  ==>  a ; a => b ; a && b => c   (earlier conjuncts may be used for later ones)
		var out []Term
		var prem []Term
		var flat []string
		var fl func(cs []string)
		fl = func(cs []string) {
			for _, c := range cs {
				if cc, ok := sexprChildren(c); ok && len(cc) > 0 && cc[0] == "and" {
					fl(cc[1:])
				} else {
					flat = append(flat, c)
				}
			}
		}
		fl(ch[1:])
		for _, c := range flat {
			for _, g := range splitGoal(Term{c, SBool}, limit-1) {
				out = append(out, tImplies(tAnd(prem...), g))
			}
			if !strings.Contains(c, "(forall ") && !strings.Contains(c, "(exists ") && len(c) < 400 {
				prem = append(prem, Term{c, SBool})
			}
		}
		return out
	case "=>":
		if len(ch) == 3 {
			var out []Term
			for _, c := range splitGoal(Term{ch[2], SBool}, limit-1) {
				out = append(out, tImplies(Term{ch[1], SBool}, c))
			}
			return out
		}
	case "forall":
		// (forall (x) (A and B)) == (forall (x) A) and (forall (x) B); an equivalence of two formulas under
		// the quantifier is split into its two directions (an existential on one side can then be skolemised)
		if len(ch) == 3 && !strings.HasPrefix(ch[2], "(!") {
			parts := splitGoal(Term{ch[2], SBool}, limit-1)
			if len(parts) > 1 {
				var out []Term
				for _, p := range parts {
					out = append(out, Term{"(forall " + ch[1] + " " + p.S + ")", SBool})
				}
				return out
			}
		}
	case "=":
		if len(ch) == 3 && (isFormula(ch[1]) || isFormula(ch[2])) && (strings.Contains(ch[1], "(exists ") || strings.Contains(ch[2], "(exists ")) {
			a, b := Term{ch[1], SBool}, Term{ch[2], SBool}
			return []Term{tImplies(a, b), tImplies(b, a)}
		}
	case "ite":
		if len(ch) == 4 {
			var out []Term
			c := Term{ch[1], SBool}
			for _, x := range splitGoal(Term{ch[2], SBool}, limit-1) {
				out = append(out, tImplies(c, x))
			}
			for _, x := range splitGoal(Term{ch[3], SBool}, limit-1) {
				out = append(out, tImplies(tNot(c), x))
			}
			return out
		}
	}
	return []Term{g}
}

// mkForall builds a universal quantifier in prenex form: universal quantifiers
// nested in the body (directly or at the end of a chain of implications) are
// merged into one binder list, so that e-matching patterns can mention the
// variables of all levels. Pattern annotations of the inner quantifier are kept.
func mkForall(binders string, body Term) Term {
	// only quantifiers over slices are merged with what they contain: without merging their
	// variables occur in no term outside the inner quantifiers, so no pattern exists; merging
	// plain integer quantifiers (e.g. the i,j of a sortedness predicate) measurably hurts
	if os.Getenv("GVC_NOPRENEX") != "" || !strings.Contains(binders, "(Array ") {
		return Term{"(forall (" + binders + ") " + body.S + ")", SBool}
	}
	annot := ""
	cur := body.S
	var prem []string
	for {
		ch, ok := sexprChildren(cur)
		if !ok {
			break
		}
		if len(ch) >= 4 && ch[0] == "!" {
			if annot == "" {
				annot = strings.Join(ch[2:], " ")
			}
			cur = ch[1]
			continue
		}
		if len(ch) == 3 && ch[0] == "=>" {
			prem = append(prem, ch[1])
			cur = ch[2]
			continue
		}
		if len(ch) == 3 && ch[0] == "forall" {
			binders += " " + ch[1][1:len(ch[1])-1]
			cur = ch[2]
			continue
		}
		break
	}
	b := cur
	if len(prem) == 1 {
		b = "(=> " + prem[0] + " " + cur + ")"
	} else if len(prem) > 1 {
		b = "(=> (and " + strings.Join(prem, " ") + ") " + cur + ")"
	}
	if annot != "" {
		b = "(! " + b + " " + annot + ")"
	}
	return Term{"(forall (" + binders + ") " + b + ")", SBool}
}

// isFormula: the s-expression is certainly of sort Bool (it starts with a logical connective or a comparison).
func isFormula(s string) bool {
	for _, p := range []string{"(exists ", "(forall ", "(and ", "(or ", "(not ", "(=> ", "(<= ", "(< ", "(>= ", "(> ", "(= "} {
		if strings.HasPrefix(s, p) {
			return true
		}
	}
	return s == "true" || s == "false"
}
