package main

import (
	"strconv"
	"os"
	"fmt"
	"go/types"
	"math/big"
	"strings"

	"golang.org/x/tools/go/ssa"
)

// ---------------------------------------------------------------------------
// Symbolic values. Every value is a Go-side tree whose leaves are SMT terms.
// Object identity (which cell a pointer refers to, which backing array a slice
// uses) is concrete on every path; only contents are symbolic.
// ---------------------------------------------------------------------------

type ObjID int

type Val interface{ Type() types.Type }

type Scalar struct {
	T   Term
	Typ types.Type
}

// ConstV is an untyped integer constant in a spec expression; it adapts to the
// other operand.
type ConstV struct{ N *big.Int }

type StructV struct {
	F   []Val
	Typ types.Type
}

// SliceV: window [Off, Off+Len) into the backing array object Arr.
type SliceV struct {
	Arr      ObjID
	Off, Len Term
	Cap      Term
	Nil      Term // Bool: the slice is nil (then Len = 0)
	Typ      types.Type
}

type Step struct {
	Field int  // >= 0: struct field
	Idx   Term // Field < 0: element index into a SeqV
}

// PtrV: Obj == 0 means the nil pointer. Sym != "" means an unknown pointer
// (identity not tracked); dereferencing it is unsupported.
type PtrV struct {
	Obj  ObjID
	Path []Step
	Sym  string
	Typ  types.Type
	Root types.Type // for Sym pointers into a heap object: the struct type the reference points to
}

// SeqTree holds the contents of an array as SMT arrays, one per scalar leaf
// of the element type ("struct of arrays").
type SeqTree struct {
	Arr    Term      // leaf (for a slice-typed element: array of backing-array references)
	Len    Term      // slice-typed element: array of lengths ("" otherwise)
	Fields []SeqTree // struct element
	Typ    types.Type
}

func (tr SeqTree) isSliceLeaf() bool { return tr.Len.S != "" }

// SeqV is the content of an array object (backing store of slices, or a Go
// array value).
type SeqV struct {
	Tree SeqTree
	N    Term // number of elements if known ("" if unknown)
	Typ  types.Type
}

type TupleV struct{ E []Val }

type FuncV struct {
	Fn       *ssa.Function
	Bindings []Val
	Typ      types.Type
}

// IfaceV is an interface value with a known dynamic type, or opaque (Dyn == nil).
type IfaceV struct {
	Dyn types.Type
	V   Val
	Tag Term // Ref: opaque identity when Dyn == nil
	Typ types.Type
}

// MapV: total function + domain.
type MapV struct {
	Dom  Term // (Array K Bool)
	Vals SeqTreeK
	Len  Term
	Nil  Term
	Typ  types.Type
}

// SeqTreeK is like SeqTree but indexed by an arbitrary key sort.
type SeqTreeK struct {
	Arr    Term
	Fields []SeqTreeK
	Typ    types.Type
}

func (v Scalar) Type() types.Type  { return v.Typ }
func (v ConstV) Type() types.Type  { return types.Typ[types.UntypedInt] }
func (v StructV) Type() types.Type { return v.Typ }
func (v SliceV) Type() types.Type  { return v.Typ }
func (v PtrV) Type() types.Type    { return v.Typ }
func (v SeqV) Type() types.Type    { return v.Typ }
func (v TupleV) Type() types.Type  { return nil }
func (v FuncV) Type() types.Type   { return v.Typ }
func (v IfaceV) Type() types.Type  { return v.Typ }
func (v MapV) Type() types.Type    { return v.Typ }

// ---------------------------------------------------------------------------
// Verification context for one function: fresh names, declarations.
// ---------------------------------------------------------------------------

type VCtx struct {
	pkg    *PkgCtx
	decls  []string
	nfresh int
	nobj   ObjID
	// notes collected while executing (unsupported features etc.)
	unsupported map[string]bool
	assumed     map[string]bool
	strConsts   map[string]Term
	ufs         map[string]bool
	heapSorts   map[string]string
	heapAxioms  map[string]string
	epochs      int
	sorts       map[string]string
}

// bvWidthOf: width of a term that is a declared bit-vector constant or a select from a declared array
func (c *VCtx) bvWidthOf(x string) (int, bool) {
	if c.sorts == nil {
		return 0, false
	}
	name := x
	if s, ok := c.sorts[x]; ok {
		return isBVw(s)
	}
	if strings.HasPrefix(x, "(select ") {
		f := strings.Fields(x[len("(select "):])
		if len(f) > 0 {
			name = f[0]
		}
		if s, ok := c.sorts[name]; ok && strings.HasPrefix(s, "(Array Int ") {
			return isBVw(strings.TrimSuffix(strings.TrimPrefix(s, "(Array Int "), ")"))
		}
		return 0, false
	}
	if s, ok := c.sorts[name]; ok {
		return isBVw(s)
	}
	return 0, false
}

func isBVw(s string) (int, bool) { return isBV(s) }

func (c *VCtx) fresh(hint, sort string) Term {
	if c.sorts == nil {
		c.sorts = map[string]string{}
	}
	defer func() {
		c.sorts[fmt.Sprintf("|%s!%d|", sanitize(hint), c.nfresh)] = sort
	}()
	if c.nfresh == 0 {
		// GVC_FRESH_OFFSET: start the symbol numbering elsewhere (stability test: a proof must not depend on symbol names)
		if o, err := strconv.Atoi(os.Getenv("GVC_FRESH_OFFSET")); err == nil {
			c.nfresh = o
		}
	}
	c.nfresh++
	hint = sanitize(hint)
	name := fmt.Sprintf("%s!%d", hint, c.nfresh)
	c.decls = append(c.decls, fmt.Sprintf("(declare-fun |%s| () %s)", name, sort))
	return Term{"|" + name + "|", sort}
}

func sanitize(s string) string {
	var b strings.Builder
	for _, r := range s {
		if r == '|' || r == '\\' || r == ' ' || r == '\n' || r == '\t' {
			b.WriteRune('_')
		} else {
			b.WriteRune(r)
		}
	}
	if b.Len() == 0 {
		return "v"
	}
	return b.String()
}

func (c *VCtx) newObj() ObjID { c.nobj++; return c.nobj }

func (c *VCtx) unsup(format string, a ...any) {
	if c.unsupported == nil {
		c.unsupported = map[string]bool{}
	}
	c.unsupported[fmt.Sprintf(format, a...)] = true
}

// ---------------------------------------------------------------------------
// Type model
// ---------------------------------------------------------------------------

type intInfo struct {
	bits   int
	signed bool
	bv     bool
}

func (p *PkgCtx) intInfo(t types.Type) (intInfo, bool) {
	b, ok := t.Underlying().(*types.Basic)
	if !ok {
		return intInfo{}, false
	}
	var ii intInfo
	switch b.Kind() {
	case types.Int, types.Int64:
		ii = intInfo{64, true, false}
	case types.Int32:
		ii = intInfo{32, true, false}
	case types.Int16:
		ii = intInfo{16, true, false}
	case types.Int8:
		ii = intInfo{8, true, false}
	case types.Uint, types.Uint64, types.Uintptr:
		ii = intInfo{64, false, false}
	case types.Uint32:
		ii = intInfo{32, false, false}
	case types.Uint16:
		ii = intInfo{16, false, false}
	case types.Uint8:
		ii = intInfo{8, false, false}
	case types.UntypedInt, types.UntypedRune:
		ii = intInfo{64, true, false}
	default:
		return intInfo{}, false
	}
	if p != nil && p.bvKinds[b.Kind()] {
		ii.bv = true
	}
	return ii, true
}

func (ii intInfo) sort() string {
	if ii.bv {
		return bvSort(ii.bits)
	}
	return SInt
}

func (ii intInfo) min() *big.Int {
	if ii.signed {
		return new(big.Int).Neg(pow2(ii.bits - 1))
	}
	return big.NewInt(0)
}
func (ii intInfo) max() *big.Int {
	if ii.signed {
		return new(big.Int).Sub(pow2(ii.bits-1), big.NewInt(1))
	}
	return new(big.Int).Sub(pow2(ii.bits), big.NewInt(1))
}

// rangeOf: the range constraint of an Int-mode value.
func (ii intInfo) rangeOf(t Term) Term {
	if ii.bv {
		return tTrue
	}
	return tAnd(tLe(bigLit(ii.min()), t), tLe(t, bigLit(ii.max())))
}

// scalarSort returns the SMT sort of a type that is represented by one term,
// or "" if the type is structured.
func (p *PkgCtx) scalarSort(t types.Type) string {
	switch u := t.Underlying().(type) {
	case *types.Basic:
		if ii, ok := p.intInfo(t); ok {
			return ii.sort()
		}
		switch {
		case u.Info()&types.IsBoolean != 0:
			return SBool
		case u.Info()&types.IsString != 0:
			return SStr
		}
		return SRef
	case *types.Struct, *types.Slice, *types.Array:
		return ""
	}
	return SRef
}

// elemLeafSort: sort used when a value of type t is stored as an element of a
// SeqTree leaf. Non-scalar, non-struct element types degrade to Ref.
func (p *PkgCtx) seqTreeOf(c *VCtx, t types.Type, hint string, zero bool) SeqTree {
	if st, ok := t.Underlying().(*types.Struct); ok {
		tr := SeqTree{Typ: t}
		for i := 0; i < st.NumFields(); i++ {
			tr.Fields = append(tr.Fields, p.seqTreeOf(c, st.Field(i).Type(), hint+"."+st.Field(i).Name(), zero))
		}
		return tr
	}
	if sl, ok := t.Underlying().(*types.Slice); ok && p.nestable(sl.Elem(), 0) {
		// element that is itself a slice: (reference to its backing array, length) per element;
		// the contents of a backing array are a function of its reference (heapTree)
		if zero {
			return SeqTree{Arr: zeroOf(arrSort(SRef)), Len: Term{"((as const (Array Int Int)) 0)", arrSort(SInt)}, Typ: t}
		}
		ln := c.fresh(hint+".len", arrSort(SInt))
		c.decls = append(c.decls, fmt.Sprintf("(assert (forall ((k Int)) (! (and (<= 0 (select %s k)) (<= (select %s k) %s)) :pattern ((select %s k)))))", ln.S, ln.S, pow2(maxLenBits).String(), ln.S))
		return SeqTree{Arr: c.fresh(hint+".ref", arrSort(SRef)), Len: ln, Typ: t}
	}
	s := p.scalarSort(t)
	if s == "" {
		s = SRef
	}
	if zero {
		return SeqTree{Arr: zeroOf(arrSort(s)), Typ: t}
	}
	arr := c.fresh(hint, arrSort(s))
	if ii, ok := p.intInfo(t); ok && !ii.bv {
		// every element of an array of Go integers is within the range of its type
		c.decls = append(c.decls, fmt.Sprintf("(assert (forall ((k Int)) (! (and (<= %s (select %s k)) (<= (select %s k) %s)) :pattern ((select %s k)))))",
			bigLit(ii.min()).S, arr.S, arr.S, bigLit(ii.max()).S, arr.S))
	}
	return SeqTree{Arr: arr, Typ: t}
}

// nestable: element types of nested slices that the heap-function representation covers
func (p *PkgCtx) nestable(t types.Type, depth int) bool {
	if depth > 4 {
		return false
	}
	switch u := t.Underlying().(type) {
	case *types.Struct:
		for i := 0; i < u.NumFields(); i++ {
			if !p.nestable(u.Field(i).Type(), depth+1) {
				return false
			}
		}
		return true
	case *types.Slice:
		return p.nestable(u.Elem(), depth+1)
	case *types.Array:
		return false
	}
	return true // scalars, and everything stored as an opaque reference
}

func typeKey(t types.Type) string {
	s := types.TypeString(t, func(p *types.Package) string { return p.Name() })
	var b strings.Builder
	for _, r := range s {
		if r >= 'a' && r <= 'z' || r >= 'A' && r <= 'Z' || r >= '0' && r <= '9' {
			b.WriteRune(r)
		} else {
			b.WriteRune('_')
		}
	}
	return b.String()
}

// heapTree: the contents of the backing array with reference ref, as applications of
// per-type heap functions (declared on demand).
func (p *PkgCtx) heapTree(c *VCtx, t types.Type, ref Term, name string) SeqTree {
	if st, ok := t.Underlying().(*types.Struct); ok {
		tr := SeqTree{Typ: t}
		for i := 0; i < st.NumFields(); i++ {
			tr.Fields = append(tr.Fields, p.heapTree(c, st.Field(i).Type(), ref, name+"_"+st.Field(i).Name()))
		}
		return tr
	}
	if sl, ok := t.Underlying().(*types.Slice); ok && p.nestable(sl.Elem(), 0) {
		fr, fl := "hp_"+name+"_ref", "hp_"+name+"_len"
		c.declareHeap(fr, arrSort(SRef), "")
		c.declareHeap(fl, arrSort(SInt), fmt.Sprintf("(assert (forall ((r Ref) (k Int)) (! (and (<= 0 (select (%s r) k)) (<= (select (%s r) k) %s)) :pattern ((select (%s r) k)))))", fl, fl, pow2(maxLenBits).String(), fl))
		return SeqTree{Arr: app(arrSort(SRef), fr, ref), Len: app(arrSort(SInt), fl, ref), Typ: t}
	}
	s := p.scalarSort(t)
	if s == "" {
		s = SRef
	}
	fn := "hp_" + name
	ax := ""
	if ii, ok := p.intInfo(t); ok && !ii.bv {
		ax = fmt.Sprintf("(assert (forall ((r Ref) (k Int)) (! (and (<= %s (select (%s r) k)) (<= (select (%s r) k) %s)) :pattern ((select (%s r) k)))))", bigLit(ii.min()).S, fn, fn, bigLit(ii.max()).S, fn)
	}
	c.declareHeap(fn, arrSort(s), ax)
	return SeqTree{Arr: app(arrSort(s), fn, ref), Typ: t}
}

func (c *VCtx) declareHeap(name, sort, axiom string) {
	if c.ufs == nil {
		c.ufs = map[string]bool{}
	}
	if c.ufs[name] {
		return
	}
	c.ufs[name] = true
	c.decls = append(c.decls, fmt.Sprintf("(declare-fun %s (Ref) %s)", name, sort))
	if axiom != "" {
		c.decls = append(c.decls, axiom)
	}
}

// matSlice: the slice stored in a container element: same reference => same backing array object.
func (s *State) matSlice(ref, ln Term, t types.Type) Val {
	if s.matObjs == nil {
		s.matObjs = map[string]ObjID{}
	}
	id, ok := s.matObjs[ref.S]
	if !ok {
		id = s.c.newObj()
		et := t.Underlying().(*types.Slice).Elem()
		s.objs[id] = SeqV{Tree: s.c.pkg.heapTree(s.c, et, ref, typeKey(et)), Typ: et}
		s.matObjs[ref.S] = id
		if s.objRef == nil {
			s.objRef = map[ObjID]Term{}
		}
		s.objRef[id] = ref
	} else if _, have := s.objs[id]; !have {
		et := t.Underlying().(*types.Slice).Elem()
		s.objs[id] = SeqV{Tree: s.c.pkg.heapTree(s.c, et, ref, typeKey(et)), Typ: et}
	}
	return SliceV{Arr: id, Off: intLit(0), Len: ln, Cap: ln, Nil: tEq(ref, Term{"ref_nil", SRef}), Typ: t}
}

func (p *PkgCtx) isOpaqueElem(t types.Type) bool {
	switch t.Underlying().(type) {
	case *types.Struct:
		return false
	}
	return p.scalarSort(t) == "" || (p.scalarSort(t) == SRef)
}

// ---------------------------------------------------------------------------
// State
// ---------------------------------------------------------------------------

// callLog: ghost record of the results of all calls to one callee on this path
// (call k returned Arrs[j][k] as its j-th scalar result component).
type callLog struct {
	Arrs  []Term
	Types []types.Type
	Cnt   Term
}

type State struct {
	epoch   int // heap-function epoch: bumped whenever unknown code may have written the heap
	refVals map[string]Val // reference term -> the structural pointer / interface value stored under it
	keep    []Term // facts that survive a modular loop cut
	matObjs map[string]ObjID // reference term -> backing array object of a nested slice
	objRef  map[ObjID]Term
	logs map[string]callLog
	c    *VCtx
	symObjs map[string]ObjID // lazily materialised pointees of unknown pointers (non-struct pointees)
	bounds      map[string][2]*big.Int // integer bounds of terms known on every path that has them (see boundOf)
	facts       map[string]bool     // literal conjuncts assumed on this path (syntactic branch pruning)
	iterVisited map[*ssa.Range]Term // ghost: keys already produced by a range over a map
	iterBefore  Term
	heap    map[string]Term  // current version of each heap array (field of struct objects behind unknown pointers); absent = base array of the epoch
	objs map[ObjID]Val
	regs map[ssa.Value]Val
	pc   []Term
	// names of local variables -> alloc (for spec evaluation)
	// memo for opaque element materialisation is not kept: see DESIGN 2.3
}

func (s *State) clone() *State {
	n := &State{c: s.c, objs: make(map[ObjID]Val, len(s.objs)), regs: make(map[ssa.Value]Val, len(s.regs)), symObjs: make(map[string]ObjID, len(s.symObjs)), epoch: s.epoch}
	for k, v := range s.objs {
		n.objs[k] = v
	}
	for k, v := range s.regs {
		n.regs[k] = v
	}
	for k, v := range s.symObjs {
		n.symObjs[k] = v
	}
	n.heap = make(map[string]Term, len(s.heap))
	for k, v := range s.heap {
		n.heap[k] = v
	}
	if s.bounds != nil {
		n.bounds = make(map[string][2]*big.Int, len(s.bounds))
		for k, v := range s.bounds {
			n.bounds[k] = v
		}
	}
	if s.facts != nil {
		n.facts = make(map[string]bool, len(s.facts))
		for k, v := range s.facts {
			n.facts[k] = v
		}
	}
	if s.iterVisited != nil {
		n.iterVisited = make(map[*ssa.Range]Term, len(s.iterVisited))
		for k, v := range s.iterVisited {
			n.iterVisited[k] = v
		}
	}
	n.logs = make(map[string]callLog, len(s.logs))
	for k, v := range s.logs {
		n.logs[k] = v
	}
	n.matObjs = make(map[string]ObjID, len(s.matObjs))
	for k, v := range s.matObjs {
		n.matObjs[k] = v
	}
	n.objRef = make(map[ObjID]Term, len(s.objRef))
	for k, v := range s.objRef {
		n.objRef[k] = v
	}
	n.refVals = make(map[string]Val, len(s.refVals))
	for k, v := range s.refVals {
		n.refVals[k] = v
	}
	n.pc = append([]Term(nil), s.pc...)
	n.keep = append([]Term(nil), s.keep...)
	return n
}

// snapshot: heap only (for old()).
func (s *State) snapshot() *State {
	n := &State{c: s.c, objs: make(map[ObjID]Val, len(s.objs)), regs: s.regs, symObjs: make(map[string]ObjID, len(s.symObjs)), epoch: s.epoch}
	for k, v := range s.objs {
		n.objs[k] = v
	}
	for k, v := range s.symObjs {
		n.symObjs[k] = v
	}
	n.heap = make(map[string]Term, len(s.heap))
	for k, v := range s.heap {
		n.heap[k] = v
	}
	if s.bounds != nil {
		n.bounds = make(map[string][2]*big.Int, len(s.bounds))
		for k, v := range s.bounds {
			n.bounds[k] = v
		}
	}
	if s.facts != nil {
		n.facts = make(map[string]bool, len(s.facts))
		for k, v := range s.facts {
			n.facts[k] = v
		}
	}
	if s.iterVisited != nil {
		n.iterVisited = make(map[*ssa.Range]Term, len(s.iterVisited))
		for k, v := range s.iterVisited {
			n.iterVisited[k] = v
		}
	}
	n.logs = make(map[string]callLog, len(s.logs))
	for k, v := range s.logs {
		n.logs[k] = v
	}
	n.matObjs = make(map[string]ObjID, len(s.matObjs))
	for k, v := range s.matObjs {
		n.matObjs[k] = v
	}
	n.objRef = make(map[ObjID]Term, len(s.objRef))
	for k, v := range s.objRef {
		n.objRef[k] = v
	}
	n.refVals = make(map[string]Val, len(s.refVals))
	for k, v := range s.refVals {
		n.refVals[k] = v
	}
	return n
}

func (s *State) assume(t Term) {
	if t.S == "true" {
		return
	}
	s.pc = append(s.pc, t)
	s.noteFacts(t.S, 0)
}

// noteFacts records the literal conjuncts of an assumption; a branch whose condition contradicts a
// recorded literal syntactically is not explored (it would only produce vacuous obligations).
func (s *State) noteFacts(t string, depth int) {
	if depth > 3 {
		return
	}
	if strings.HasPrefix(t, "(and ") {
		if ch, ok := sexprChildren(t); ok {
			for _, c := range ch[1:] {
				s.noteFacts(c, depth+1)
			}
		}
		return
	}
	if s.facts == nil {
		s.facts = map[string]bool{}
	}
	s.facts[t] = true
}

func (s *State) knownTrue(t Term) bool  { return os.Getenv("GVC_NOPRUNE") == "" && s.facts[t.S] }
func (s *State) knownFalse(t Term) bool { return os.Getenv("GVC_NOPRUNE") == "" && (s.facts[tNot(t).S] || (strings.HasPrefix(t.S, "(not ") && s.facts[strings.TrimSuffix(strings.TrimPrefix(t.S, "(not "), ")")])) }

// assumeGlobal: a fact that holds in every state (type ranges of fresh symbols, preconditions
// about entry values); it survives a modular loop cut.
func (s *State) assumeGlobal(t Term) {
	if t.S == "true" {
		return
	}
	s.pc = append(s.pc, t)
	s.noteFacts(t.S, 0)
	s.keep = append(s.keep, t)
}

// ---------------------------------------------------------------------------
// Value construction
// ---------------------------------------------------------------------------

const maxLenBits = 48 // slices cannot exceed the amd64 address space (runtime maxAlloc = 2^48)

func (s *State) freshScalar(t types.Type, hint string) Scalar {
	p := s.c.pkg
	sort := p.scalarSort(t)
	if sort == "" {
		sort = SRef
	}
	v := s.c.fresh(hint, sort)
	if ii, ok := p.intInfo(t); ok && !ii.bv {
		s.assumeGlobal(ii.rangeOf(v))
	}
	return Scalar{v, t}
}

// freshVal builds an unconstrained value of type t. Slices get a fresh backing
// array object (ownership assumption); pointers get a fresh pointee when
// deep > 0, otherwise they are unknown pointers.
func (s *State) freshVal(t types.Type, hint string, deep int) Val {
	p := s.c.pkg
	switch u := t.Underlying().(type) {
	case *types.Struct:
		sv := StructV{Typ: t}
		for i := 0; i < u.NumFields(); i++ {
			sv.F = append(sv.F, s.freshVal(u.Field(i).Type(), hint+"."+u.Field(i).Name(), deep))
		}
		return sv
	case *types.Slice:
		id := s.c.newObj()
		s.objs[id] = SeqV{Tree: p.seqTreeOf(s.c, u.Elem(), hint+"[]", false), Typ: u.Elem()}
		ln := s.c.fresh(hint+".len", SInt)
		cp := s.c.fresh(hint+".cap", SInt)
		nl := s.c.fresh(hint+".nil", SBool)
		s.assumeGlobal(tAnd(tLe(intLit(0), ln), tLe(ln, cp), tLe(cp, bigLit(pow2(maxLenBits))), tImplies(nl, tEq(cp, intLit(0)))))
		return SliceV{Arr: id, Off: intLit(0), Len: ln, Cap: cp, Nil: nl, Typ: t}
	case *types.Array:
		return SeqV{Tree: p.seqTreeOf(s.c, u.Elem(), hint+"[]", false), N: intLit(u.Len()), Typ: t}
	case *types.Pointer:
		if deep > 0 {
			id := s.c.newObj()
			s.objs[id] = s.freshVal(u.Elem(), "*"+hint, deep-1)
			return PtrV{Obj: id, Typ: t}
		}
		return PtrV{Sym: s.c.fresh(hint, SRef).S, Typ: t}
	case *types.Tuple:
		tv := TupleV{}
		for i := 0; i < u.Len(); i++ {
			tv.E = append(tv.E, s.freshVal(u.At(i).Type(), fmt.Sprintf("%s#%d", hint, i), deep))
		}
		return tv
	case *types.Interface:
		return IfaceV{Tag: s.c.fresh(hint, SRef), Typ: t}
	case *types.Map:
		return s.freshMap(t, u, hint)
	}
	return s.freshScalar(t, hint)
}

func (s *State) keySort(k types.Type) string {
	ks := s.c.pkg.scalarSort(k)
	if ks == "" {
		ks = SRef
	}
	return ks
}

func (s *State) freshMap(t types.Type, u *types.Map, hint string) Val {
	ks := s.keySort(u.Key())
	m := MapV{Typ: t}
	m.Dom = s.c.fresh(hint+".dom", "(Array "+ks+" Bool)")
	m.Vals = s.seqTreeK(u.Elem(), ks, hint+".val")
	m.Len = s.c.fresh(hint+".len", SInt)
	m.Nil = s.c.fresh(hint+".nil", SBool)
	s.assume(tLe(intLit(0), m.Len))
	return m
}

func (s *State) seqTreeK(t types.Type, ks, hint string) SeqTreeK {
	p := s.c.pkg
	if st, ok := t.Underlying().(*types.Struct); ok {
		tr := SeqTreeK{Typ: t}
		for i := 0; i < st.NumFields(); i++ {
			tr.Fields = append(tr.Fields, s.seqTreeK(st.Field(i).Type(), ks, hint+"."+st.Field(i).Name()))
		}
		return tr
	}
	es := p.scalarSort(t)
	if es == "" {
		es = SRef
	}
	return SeqTreeK{Arr: s.c.fresh(hint, "(Array "+ks+" "+es+")"), Typ: t}
}

// zeroVal is the Go zero value of t.
func (s *State) zeroVal(t types.Type) Val {
	p := s.c.pkg
	switch u := t.Underlying().(type) {
	case *types.Struct:
		sv := StructV{Typ: t}
		for i := 0; i < u.NumFields(); i++ {
			sv.F = append(sv.F, s.zeroVal(u.Field(i).Type()))
		}
		return sv
	case *types.Slice:
		return SliceV{Arr: 0, Off: intLit(0), Len: intLit(0), Cap: intLit(0), Nil: tTrue, Typ: t}
	case *types.Array:
		return SeqV{Tree: p.seqTreeOf(s.c, u.Elem(), "", true), N: intLit(u.Len()), Typ: t}
	case *types.Pointer:
		return PtrV{Obj: 0, Typ: t}
	case *types.Interface:
		return IfaceV{Tag: Term{"ref_nil", SRef}, Typ: t}
	case *types.Map:
		ks := s.keySort(u.Key())
		m := MapV{Typ: t, Len: intLit(0), Nil: tTrue}
		m.Dom = Term{"((as const (Array " + ks + " Bool)) false)", "(Array " + ks + " Bool)"}
		m.Vals = s.zeroTreeK(u.Elem(), ks)
		return m
	case *types.Signature:
		return Scalar{Term{"ref_nil", SRef}, t}
	}
	sort := p.scalarSort(t)
	if sort == "" {
		sort = SRef
	}
	return Scalar{zeroOf(sort), t}
}

func (s *State) zeroTreeK(t types.Type, ks string) SeqTreeK {
	p := s.c.pkg
	if st, ok := t.Underlying().(*types.Struct); ok {
		tr := SeqTreeK{Typ: t}
		for i := 0; i < st.NumFields(); i++ {
			tr.Fields = append(tr.Fields, s.zeroTreeK(st.Field(i).Type(), ks))
		}
		return tr
	}
	es := p.scalarSort(t)
	if es == "" {
		es = SRef
	}
	srt := "(Array " + ks + " " + es + ")"
	if es == SRef || es == SStr {
		return SeqTreeK{Arr: Term{"zeroarr_" + ks + "_" + es, srt}, Typ: t}
	}
	return SeqTreeK{Arr: Term{"((as const " + srt + ") " + zeroOf(es).S + ")", srt}, Typ: t}
}

// ---------------------------------------------------------------------------
// SeqTree operations
// ---------------------------------------------------------------------------

func (s *State) treeSelect(tr SeqTree, idx Term) Val {
	if tr.Fields != nil || isStruct(tr.Typ) {
		sv := StructV{Typ: tr.Typ}
		for _, f := range tr.Fields {
			sv.F = append(sv.F, s.treeSelect(f, idx))
		}
		return sv
	}
	if tr.isSliceLeaf() {
		return s.matSlice(tSelect(tr.Arr, idx), tSelect(tr.Len, idx), tr.Typ)
	}
	return s.fromLeaf(tSelect(tr.Arr, idx), tr.Typ)
}

func isStruct(t types.Type) bool {
	_, ok := t.Underlying().(*types.Struct)
	return ok
}

// fromLeaf turns a leaf term into a value of type t. Elements whose type is
// not scalar were stored as Ref; reading them back yields an unknown value of
// the right shape (ownership assumption: nested containers are not tracked).
func (s *State) fromLeaf(t Term, typ types.Type) Val {
	switch typ.Underlying().(type) {
	case *types.Basic:
		return Scalar{t, typ}
	case *types.Pointer:
		if v, ok := s.refVals[t.S]; ok {
			if pv, ok := v.(PtrV); ok {
				pv.Typ = typ
				return pv
			}
		}
		return PtrV{Sym: t.S, Typ: typ}
	case *types.Interface:
		if v, ok := s.refVals[t.S]; ok {
			if iv, ok := v.(IfaceV); ok {
				iv.Typ = typ
				return iv
			}
		}
		return IfaceV{Tag: t, Typ: typ}
	case *types.Slice, *types.Map, *types.Array:
		v := s.freshVal(typ, "elem", 0)
		return v
	}
	return Scalar{t, typ}
}

func (s *State) toLeaf(v Val, sort string) Term {
	switch x := v.(type) {
	case Scalar:
		return x.T
	case PtrV:
		if x.Sym != "" && len(x.Path) == 0 {
			return Term{x.Sym, SRef}
		}
		if x.Sym == "" && x.Obj == 0 {
			return Term{"ref_nil", SRef}
		}
		// one reference per structural pointer (so that uninterpreted functions of it agree)
		key := fmt.Sprintf("ptr:%d/%s/%v", x.Obj, x.Sym, x.Path)
		if s.refVals == nil {
			s.refVals = map[string]Val{}
		}
		if rv, ok := s.refVals[key]; ok {
			return rv.(Scalar).T
		}
		r := s.c.fresh("ptr", SRef)
		s.assumeGlobal(tNot(tEq(r, Term{"ref_nil", SRef})))
		s.refVals[r.S] = x
		s.refVals[key] = Scalar{T: r}
		return r
	case IfaceV:
		if x.Tag.S != "" {
			return x.Tag
		}
		r := s.c.fresh("iface", SRef)
		if x.Dyn != nil {
			s.assume(tNot(tEq(r, Term{"ref_nil", SRef})))
			if s.refVals == nil {
				s.refVals = map[string]Val{}
			}
			s.refVals[r.S] = x
		}
		return r
	case ConstV:
		if n, ok := isBV(sort); ok {
			return bvLit(x.N, n)
		}
		return bigLit(x.N)
	}
	return s.c.fresh("elem", sort)
}

func (s *State) treeStore(tr SeqTree, idx Term, v Val) SeqTree {
	if tr.Fields != nil || isStruct(tr.Typ) {
		sv, ok := v.(StructV)
		out := SeqTree{Typ: tr.Typ}
		for i, f := range tr.Fields {
			if ok {
				out.Fields = append(out.Fields, s.treeStore(f, idx, sv.F[i]))
			} else {
				out.Fields = append(out.Fields, f)
			}
		}
		return out
	}
	if tr.isSliceLeaf() {
		sv, ok := v.(SliceV)
		if !ok {
			return SeqTree{Arr: tStore(tr.Arr, idx, s.c.fresh("ref", SRef)), Len: tStore(tr.Len, idx, s.c.fresh("len", SInt)), Typ: tr.Typ}
		}
		ref, ln := s.refOfSlice(sv)
		return SeqTree{Arr: tStore(tr.Arr, idx, ref), Len: tStore(tr.Len, idx, ln), Typ: tr.Typ}
	}
	elem := strings.TrimSuffix(strings.TrimPrefix(tr.Arr.Sort, "(Array Int "), ")")
	return SeqTree{Arr: tStore(tr.Arr, idx, s.toLeaf(v, elem)), Typ: tr.Typ}
}

// refOfSlice: the reference under which a slice value is stored in a container; loading it
// back yields the same backing array object (aliasing is preserved on the path).
func (s *State) refOfSlice(sv SliceV) (Term, Term) {
	if sv.Arr == 0 {
		return Term{"ref_nil", SRef}, intLit(0)
	}
	if s.matObjs == nil {
		s.matObjs = map[string]ObjID{}
	}
	if s.objRef == nil {
		s.objRef = map[ObjID]Term{}
	}
	if sv.Off.S == "0" {
		if r, ok := s.objRef[sv.Arr]; ok {
			return r, sv.Len
		}
		r := s.c.fresh("aref", SRef)
		s.assume(tNot(tEq(r, Term{"ref_nil", SRef})))
		s.objRef[sv.Arr] = r
		s.matObjs[r.S] = sv.Arr
		return r, sv.Len
	}
	// a window that does not start at the beginning of its array: store a view object
	seq, ok := s.objs[sv.Arr].(SeqV)
	r := s.c.fresh("aref", SRef)
	s.assume(tNot(tEq(r, Term{"ref_nil", SRef})))
	if ok {
		id := s.c.newObj()
		nt := s.c.pkg.seqTreeOf(s.c, elemTypeOfSeq(seq), "view", false)
		zipTree(nt, seq.Tree, func(a, b Term) {
			k := s.c.boundName("k")
			kt := Term{k, SInt}
			s.assume(Term{fmt.Sprintf("(forall ((%s Int)) (! (= (select %s %s) (select %s (+ %s %s))) :pattern ((select %s %s))))", k, a.S, k, b.S, sv.Off.S, k, a.S, k), SBool})
			_ = kt
		})
		s.objs[id] = SeqV{Tree: nt, Typ: seq.Typ}
		s.objRef[id] = r
		s.matObjs[r.S] = id
	}
	return r, sv.Len
}

// treeUpdate stores nv at element idx, sub-path rest.
func (s *State) treeUpdate(tr SeqTree, idx Term, rest []Step, nv Val) SeqTree {
	if len(rest) == 0 {
		return s.treeStore(tr, idx, nv)
	}
	if tr.Fields != nil && rest[0].Field >= 0 {
		out := SeqTree{Typ: tr.Typ, Fields: append([]SeqTree(nil), tr.Fields...)}
		out.Fields[rest[0].Field] = s.treeUpdate(tr.Fields[rest[0].Field], idx, rest[1:], nv)
		return out
	}
	s.c.unsup("store into nested element path")
	return tr
}

func (s *State) leaves(tr SeqTree) []Term {
	if tr.Fields != nil || isStruct(tr.Typ) {
		var out []Term
		for _, f := range tr.Fields {
			out = append(out, s.leaves(f)...)
		}
		return out
	}
	if tr.isSliceLeaf() {
		return []Term{tr.Arr, tr.Len}
	}
	return []Term{tr.Arr}
}

func mapTree(tr SeqTree, f func(Term) Term) SeqTree {
	if tr.Fields != nil || isStruct(tr.Typ) {
		out := SeqTree{Typ: tr.Typ}
		for _, x := range tr.Fields {
			out.Fields = append(out.Fields, mapTree(x, f))
		}
		return out
	}
	if tr.isSliceLeaf() {
		return SeqTree{Arr: f(tr.Arr), Len: f(tr.Len), Typ: tr.Typ}
	}
	return SeqTree{Arr: f(tr.Arr), Typ: tr.Typ}
}

func zipTree(a, b SeqTree, f func(x, y Term)) {
	if a.Fields != nil || isStruct(a.Typ) {
		for i := range a.Fields {
			zipTree(a.Fields[i], b.Fields[i], f)
		}
		return
	}
	f(a.Arr, b.Arr)
	if a.isSliceLeaf() && b.isSliceLeaf() {
		f(a.Len, b.Len)
	}
}

// ---------------------------------------------------------------------------
// Load / store through structural pointers
// ---------------------------------------------------------------------------

// resolve turns an unknown (symbolic) pointer into a structural one by materialising an
// unconstrained pointee the first time it is dereferenced. Different unknown pointers get
// different pointees (no-alias assumption, DESIGN 2.3).
func (s *State) resolve(p PtrV) (PtrV, bool) {
	if p.Sym == "" {
		return p, p.Obj != 0
	}
	if et, ok := symStructElem(p); ok {
		// struct objects behind unknown pointers live in the heap arrays
		p.Root = et
		return p, true
	}
	pt, ok := p.Typ.(*types.Pointer)
	if !ok {
		if p.Typ == nil {
			return p, false
		}
		pt, ok = p.Typ.Underlying().(*types.Pointer)
		if !ok {
			return p, false
		}
	}
	if s.symObjs == nil {
		s.symObjs = map[string]ObjID{}
	}
	id, ok := s.symObjs[p.Sym]
	if !ok {
		id = s.c.newObj()
		s.symObjs[p.Sym] = id
		s.objs[id] = s.freshVal(pt.Elem(), "*"+strings.Trim(p.Sym, "|"), 0)
	}
	return PtrV{Obj: id, Path: p.Path, Typ: p.Typ}, true
}

func (s *State) load(p PtrV) (Val, bool) {
	if p.Sym != "" {
		if et, ok := symStructElem(p); ok {
			return s.heapLoad(et, Term{p.Sym, SRef}, p.Path)
		}
		rp, ok := s.resolve(p)
		if !ok {
			return nil, false
		}
		p = rp
	}
	if p.Obj == 0 {
		return nil, false
	}
	v, ok := s.objs[p.Obj]
	if !ok {
		return nil, false
	}
	for _, st := range p.Path {
		switch x := v.(type) {
		case StructV:
			if st.Field < 0 || st.Field >= len(x.F) {
				return nil, false
			}
			v = x.F[st.Field]
		case SeqV:
			if st.Field >= 0 {
				return nil, false
			}
			v = s.treeSelect(x.Tree, st.Idx)
		default:
			return nil, false
		}
	}
	return v, true
}

func (s *State) store(p PtrV, nv Val) bool {
	if p.Sym != "" {
		if et, ok := symStructElem(p); ok {
			return s.heapStore(et, Term{p.Sym, SRef}, p.Path, nv)
		}
		rp, ok := s.resolve(p)
		if !ok {
			return false
		}
		p = rp
	}
	if p.Obj == 0 {
		return false
	}
	v, ok := s.objs[p.Obj]
	if !ok {
		return false
	}
	s.objs[p.Obj] = s.update(v, p.Path, nv)
	return true
}

func (s *State) update(v Val, path []Step, nv Val) Val {
	if len(path) == 0 {
		return nv
	}
	st := path[0]
	switch x := v.(type) {
	case StructV:
		out := StructV{Typ: x.Typ, F: append([]Val(nil), x.F...)}
		out.F[st.Field] = s.update(x.F[st.Field], path[1:], nv)
		return out
	case SeqV:
		return SeqV{Tree: s.treeUpdate(x.Tree, st.Idx, path[1:], nv), N: x.N, Typ: x.Typ}
	}
	s.c.unsup("store through path into %T", v)
	return v
}

// ---------------------------------------------------------------------------
// Equality of values as an SMT term
// ---------------------------------------------------------------------------

func (s *State) eqVal(a, b Val) Term {
	switch x := a.(type) {
	case Scalar:
		switch y := b.(type) {
		case Scalar:
			if x.T.Sort != y.T.Sort {
				return s.c.fresh("eq_sortmismatch", SBool)
			}
			return tEq(x.T, y.T)
		case ConstV:
			return tEq(x.T, s.toLeaf(y, x.T.Sort))
		}
	case ConstV:
		switch y := b.(type) {
		case Scalar:
			return tEq(s.toLeaf(x, y.T.Sort), y.T)
		case ConstV:
			if x.N.Cmp(y.N) == 0 {
				return tTrue
			}
			return tFalse
		}
	case StructV:
		if y, ok := b.(StructV); ok && len(x.F) == len(y.F) {
			var cs []Term
			for i := range x.F {
				cs = append(cs, s.eqVal(x.F[i], y.F[i]))
			}
			return tAnd(cs...)
		}
	case PtrV:
		if y, ok := b.(PtrV); ok {
			if x.Sym == "" && y.Sym == "" {
				if x.Obj != y.Obj || len(x.Path) != len(y.Path) {
					return tFalse
				}
				var cs []Term
				for i := range x.Path {
					if x.Path[i].Field != y.Path[i].Field {
						return tFalse
					}
					if x.Path[i].Field < 0 {
						cs = append(cs, tEq(x.Path[i].Idx, y.Path[i].Idx))
					}
				}
				return tAnd(cs...)
			}
			if x.Sym != "" && y.Sym != "" {
				if len(x.Path) != len(y.Path) {
					return tFalse
				}
				cs := []Term{tEq(Term{x.Sym, SRef}, Term{y.Sym, SRef})}
				for i := range x.Path {
					if x.Path[i].Field != y.Path[i].Field {
						return tFalse
					}
					if x.Path[i].Field < 0 {
						cs = append(cs, tEq(x.Path[i].Idx, y.Path[i].Idx))
					}
				}
				return tAnd(cs...)
			}
			// one known, one unknown
			if x.Sym == "" && x.Obj == 0 {
				return tEq(Term{"ref_nil", SRef}, Term{y.Sym, SRef})
			}
			if y.Sym == "" && y.Obj == 0 {
				return tEq(Term{x.Sym, SRef}, Term{"ref_nil", SRef})
			}
			return s.c.fresh("ptreq", SBool)
		}
	case SliceV:
		// identity equality (used for frames); Go only allows == nil
		if y, ok := b.(SliceV); ok {
			if x.Arr != y.Arr {
				// two slices loaded from container elements: the same array exactly when their references agree
				rx, okx := s.objRef[x.Arr]
				ry, oky := s.objRef[y.Arr]
				if okx && oky && x.Off.S == "0" && y.Off.S == "0" {
					return tAnd(tEq(rx, ry), tEq(x.Len, y.Len))
				}
				return tAnd(x.Nil, y.Nil)
			}
			return tAnd(tEq(x.Off, y.Off), tEq(x.Len, y.Len), tEq(x.Cap, y.Cap), tEq(x.Nil, y.Nil))
		}
	case IfaceV:
		if y, ok := b.(IfaceV); ok {
			if x.Dyn == nil && y.Dyn == nil {
				return tEq(x.Tag, y.Tag)
			}
			if x.Dyn != nil && y.Dyn != nil {
				if !types.Identical(x.Dyn, y.Dyn) {
					return tFalse
				}
				return s.eqVal(x.V, y.V)
			}
			// nil interface vs known dynamic type
			if x.Dyn == nil && x.Tag.S == "ref_nil" || y.Dyn == nil && y.Tag.S == "ref_nil" {
				return tFalse
			}
			return s.c.fresh("ifaceeq", SBool)
		}
	case MapV:
		if y, ok := b.(MapV); ok {
			if fmt.Sprint(x) == fmt.Sprint(y) {
				return tTrue
			}
			return tAnd(tEq(x.Dom, y.Dom), tEq(x.Len, y.Len), tEq(x.Nil, y.Nil), s.c.fresh("mapvals_eq", SBool))
		}
	case SeqV:
		if y, ok := b.(SeqV); ok {
			var cs []Term
			zipTree(x.Tree, y.Tree, func(p, q Term) { cs = append(cs, tEq(p, q)) })
			return tAnd(cs...)
		}
	}
	s.c.unsup("equality of %T and %T", a, b)
	return s.c.fresh("eq_unknown", SBool)
}

// ---------------------------------------------------------------------------
// Symbolic heap for struct objects reached through unknown pointers: one SMT array per field,
// indexed by the object's reference (Ref -> field value). Reads are selects, writes are stores, so
// writes through one reference are seen through every equal reference, also under quantifiers.
// Code without a contract that may write the heap starts a new epoch (all arrays fresh).
// ---------------------------------------------------------------------------

func symStructElem(p PtrV) (types.Type, bool) {
	if p.Root != nil {
		return p.Root, true
	}
	if len(p.Path) != 0 {
		return nil, false
	}
	if p.Typ == nil {
		return nil, false
	}
	pt, ok := p.Typ.Underlying().(*types.Pointer)
	if !ok {
		return nil, false
	}
	if _, ok := pt.Elem().Underlying().(*types.Struct); !ok {
		return nil, false
	}
	return pt.Elem(), true
}

// harr: the current version of heap array `name` with elements of sort es.
func (s *State) harr(name, es, axiomFmt string) Term {
	if t, ok := s.heap[name]; ok {
		return t
	}
	cn := fmt.Sprintf("H_%s!e%d", name, s.epoch)
	sort := "(Array Ref " + es + ")"
	s.c.declareConst(cn, sort, strings.ReplaceAll(axiomFmt, "$F", cn))
	return Term{cn, sort}
}

// harrN: the current version of a heap array that has been declared before (by name only).
func (s *State) harrN(name string) Term {
	if t, ok := s.heap[name]; ok {
		return t
	}
	sort := s.c.heapSorts[name]
	es := ""
	if ch, ok := sexprChildren(sort); ok && len(ch) == 3 {
		es = ch[2]
	}
	return s.harr(name, es, s.c.heapAxioms[name])
}

func (s *State) hset(name string, t Term) {
	if s.heap == nil {
		s.heap = map[string]Term{}
	}
	s.heap[name] = t
}

func (c *VCtx) declareConst(name, sort, axiom string) {
	if c.ufs == nil {
		c.ufs = map[string]bool{}
	}
	if c.ufs[name] {
		return
	}
	c.ufs[name] = true
	c.decls = append(c.decls, fmt.Sprintf("(declare-fun %s () %s)", name, sort))
	if axiom != "" {
		c.decls = append(c.decls, axiom)
	}
}

// bumpEpoch: unknown code may have written any heap object: every heap array is fresh from here on.
func (s *State) bumpEpoch() {
	s.epoch = s.c.nextEpoch()
	s.heap = map[string]Term{}
}

func (c *VCtx) nextEpoch() int { c.epochs++; return c.epochs }

// hfresh: a fresh version of one heap array (havoc of one field for all objects).
func (s *State) hfresh(name string) {
	if s.heap == nil {
		s.heap = map[string]Term{}
	}
	cur, ok := s.heap[name]
	sort := ""
	if ok {
		sort = cur.Sort
	} else if srt, ok2 := s.c.heapSorts[name]; ok2 {
		sort = srt
	}
	if sort == "" {
		return
	}
	nm := s.c.fresh("H_"+name, sort)
	if ax := s.c.heapAxioms[name]; ax != "" {
		s.c.decls = append(s.c.decls, strings.ReplaceAll(ax, "$F", nm.S))
	}
	s.heap[name] = nm
}

func (s *State) hleaf(name, es, axiomFmt string) Term {
	if s.c.heapSorts == nil {
		s.c.heapSorts = map[string]string{}
		s.c.heapAxioms = map[string]string{}
	}
	s.c.heapSorts[name] = "(Array Ref " + es + ")"
	s.c.heapAxioms[name] = axiomFmt
	return s.harr(name, es, axiomFmt)
}

// heapPath walks field steps through nested structs; it returns the field name prefix, the type
// reached and the remaining (non-field or post-leaf) steps.
func heapPath(t types.Type, name string, path []Step) (types.Type, string, []Step) {
	for len(path) > 0 {
		st, ok := t.Underlying().(*types.Struct)
		if !ok || path[0].Field < 0 || path[0].Field >= st.NumFields() {
			break
		}
		f := st.Field(path[0].Field)
		name += "_" + f.Name()
		t = f.Type()
		path = path[1:]
	}
	return t, name, path
}

func (s *State) heapLoad(et types.Type, ref Term, path []Step) (Val, bool) {
	t, name, rest := heapPath(et, typeKey(et), path)
	v := s.heapRead(t, ref, name)
	if len(rest) == 0 {
		return v, true
	}
	// the rest of the path goes into a value held in one heap cell (fixed-size array field)
	id := s.c.newObj()
	s.objs[id] = v
	defer delete(s.objs, id)
	return s.load(PtrV{Obj: id, Path: rest})
}

func (s *State) heapStore(et types.Type, ref Term, path []Step, nv Val) bool {
	t, name, rest := heapPath(et, typeKey(et), path)
	if len(rest) != 0 {
		cur := s.heapRead(t, ref, name)
		nv = s.update(cur, rest, nv)
	}
	s.heapWrite(t, ref, name, nv)
	return true
}

func (s *State) heapRead(t types.Type, ref Term, name string) Val {
	p := s.c.pkg
	switch u := t.Underlying().(type) {
	case *types.Struct:
		sv := StructV{Typ: t}
		for i := 0; i < u.NumFields(); i++ {
			sv.F = append(sv.F, s.heapRead(u.Field(i).Type(), ref, name+"_"+u.Field(i).Name()))
		}
		return sv
	case *types.Pointer, *types.Interface:
		return s.fromLeaf(tSelect(s.hleaf(name, SRef, ""), ref), t)
	case *types.Slice:
		if p.nestable(u.Elem(), 0) {
			r2 := tSelect(s.hleaf(name+"_aref", SRef, ""), ref)
			ln := tSelect(s.hleaf(name+"_alen", SInt, "(assert (forall ((r Ref)) (! (and (<= 0 (select $F r)) (<= (select $F r) "+pow2(maxLenBits).String()+")) :pattern ((select $F r)))))"), ref)
			return s.matSlice(r2, ln, t)
		}
		return s.freshVal(t, name, 0)
	case *types.Map:
		ks := s.keySort(u.Key())
		m := MapV{Typ: t}
		m.Dom = tSelect(s.hleaf(name+"_dom", "(Array "+ks+" Bool)", ""), ref)
		m.Vals = s.heapTreeK(u.Elem(), ks, ref, name+"_val")
		m.Len = tSelect(s.hleaf(name+"_mlen", SInt, "(assert (forall ((r Ref)) (! (<= 0 (select $F r)) :pattern ((select $F r)))))"), ref)
		m.Nil = tSelect(s.hleaf(name+"_mnil", SBool, ""), ref)
		// an empty map has no keys (stated for concrete references only: a reference under a quantifier
		// contains a bound variable)
		if !strings.Contains(ref.S, "?") {
			s.assume(tImplies(tEq(m.Len, intLit(0)), tEq(m.Dom, Term{"((as const (Array " + ks + " Bool)) false)", "(Array " + ks + " Bool)"})))
		}
		return m
	case *types.Array, *types.Signature, *types.Chan:
		return s.freshVal(t, name, 0)
	}
	sort := p.scalarSort(t)
	if sort == "" {
		sort = SRef
	}
	ax := ""
	if ii, ok := p.intInfo(t); ok && !ii.bv {
		ax = "(assert (forall ((r Ref)) (! (and (<= " + bigLit(ii.min()).S + " (select $F r)) (<= (select $F r) " + bigLit(ii.max()).S + ")) :pattern ((select $F r)))))"
	}
	return Scalar{tSelect(s.hleaf(name, sort, ax), ref), t}
}

func (s *State) heapTreeK(t types.Type, ks string, ref Term, name string) SeqTreeK {
	p := s.c.pkg
	if st, ok := t.Underlying().(*types.Struct); ok {
		tr := SeqTreeK{Typ: t}
		for i := 0; i < st.NumFields(); i++ {
			tr.Fields = append(tr.Fields, s.heapTreeK(st.Field(i).Type(), ks, ref, name+"_"+st.Field(i).Name()))
		}
		return tr
	}
	es := p.scalarSort(t)
	if es == "" {
		es = SRef
	}
	return SeqTreeK{Arr: tSelect(s.hleaf(name, "(Array "+ks+" "+es+")", ""), ref), Typ: t}
}

func (s *State) heapWrite(t types.Type, ref Term, name string, v Val) {
	p := s.c.pkg
	put := func(nm, es string, val Term) {
		s.hset(nm, tStore(s.hleaf(nm, es, s.c.heapAxioms[nm]), ref, val))
	}
	switch u := t.Underlying().(type) {
	case *types.Struct:
		sv, ok := v.(StructV)
		for i := 0; i < u.NumFields(); i++ {
			var fv Val
			if ok && i < len(sv.F) {
				fv = sv.F[i]
			} else {
				fv = s.freshVal(u.Field(i).Type(), name, 0)
			}
			s.heapWrite(u.Field(i).Type(), ref, name+"_"+u.Field(i).Name(), fv)
		}
		return
	case *types.Pointer, *types.Interface:
		s.hleaf(name, SRef, "")
		put(name, SRef, s.toLeaf(v, SRef))
		return
	case *types.Slice:
		if p.nestable(u.Elem(), 0) {
			s.heapRead(t, ref, name) // declares the arrays
			if sv, ok := v.(SliceV); ok {
				r2, ln := s.refOfSlice(sv)
				put(name+"_aref", SRef, r2)
				put(name+"_alen", SInt, ln)
			} else {
				put(name+"_aref", SRef, s.c.fresh("ref", SRef))
				ln := s.c.fresh("len", SInt)
				s.assume(tAnd(tLe(intLit(0), ln), tLe(ln, bigLit(pow2(maxLenBits)))))
				put(name+"_alen", SInt, ln)
			}
		}
		return
	case *types.Map:
		cur := s.heapRead(t, ref, name).(MapV) // declares the arrays
		mv, ok := v.(MapV)
		if !ok {
			mv = s.freshMap(t, u, name).(MapV)
		}
		ks := s.keySort(u.Key())
		put(name+"_dom", "(Array "+ks+" Bool)", mv.Dom)
		put(name+"_mlen", SInt, mv.Len)
		put(name+"_mnil", SBool, mv.Nil)
		s.heapWriteTreeK(cur.Vals, mv.Vals, ref, name+"_val")
		return
	case *types.Array, *types.Signature, *types.Chan:
		return
	}
	sort := p.scalarSort(t)
	if sort == "" {
		sort = SRef
	}
	s.heapRead(t, ref, name)
	put(name, sort, s.toLeaf(v, sort))
}

func (s *State) heapWriteTreeK(cur, nv SeqTreeK, ref Term, name string) {
	if cur.Fields != nil {
		for i := range cur.Fields {
			if i < len(nv.Fields) {
				st := cur.Typ.Underlying().(*types.Struct)
				s.heapWriteTreeK(cur.Fields[i], nv.Fields[i], ref, name+"_"+st.Field(i).Name())
			}
		}
		return
	}
	if nv.Arr.S == "" || cur.Arr.Sort != nv.Arr.Sort {
		return
	}
	es := strings.TrimSuffix(strings.TrimPrefix(cur.Arr.Sort, "(Array "), ")")
	_ = es
	h := s.hleaf(name, s.c.heapSorts[name][len("(Array Ref "):len(s.c.heapSorts[name])-1], "")
	s.hset(name, tStore(h, ref, nv.Arr))
}
