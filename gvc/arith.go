package main

import (
	"regexp"
	"fmt"
	"go/token"
	"go/types"
	"math/big"
	"strings"
)

// prelude: SMT definitions shared by all queries.
func prelude() string {
	var b strings.Builder
	b.WriteString("(declare-sort Str 0)\n(declare-sort Ref 0)\n")
	b.WriteString("(declare-fun str_empty () Str)\n(declare-fun ref_nil () Ref)\n")
	b.WriteString("(declare-fun strlen (Str) Int)\n(assert (= (strlen str_empty) 0))\n")
	b.WriteString("(assert (forall ((s Str)) (! (and (>= (strlen s) 0) (<= (strlen s) 281474976710656)) :pattern ((strlen s)))))\n")
	b.WriteString("(assert (forall ((s Str)) (! (=> (= (strlen s) 0) (= s str_empty)) :pattern ((strlen s)))))\n")
	b.WriteString("(declare-fun str_lt (Str Str) Bool)\n")
	// Go's string comparison is a strict total order
	b.WriteString("(assert (forall ((a Str)) (! (not (str_lt a a)) :pattern ((str_lt a a)))))\n")
	b.WriteString("(assert (forall ((a Str) (b Str)) (! (=> (str_lt a b) (not (str_lt b a))) :pattern ((str_lt a b)))))\n")
	b.WriteString("(assert (forall ((a Str) (b Str)) (! (or (= a b) (str_lt a b) (str_lt b a)) :pattern ((str_lt a b)))))\n")
	b.WriteString("(assert (forall ((a Str) (b Str) (c Str)) (! (=> (and (str_lt a b) (str_lt b c)) (str_lt a c)) :pattern ((str_lt a b) (str_lt b c)))))\n")
	b.WriteString("(declare-fun str_at (Str Int) Int)\n")
	b.WriteString("(declare-fun str_cat (Str Str) Str)\n")
	b.WriteString("(assert (forall ((a Str) (b Str)) (! (= (strlen (str_cat a b)) (+ (strlen a) (strlen b))) :pattern ((str_cat a b)))))\n")
	for _, ks := range []string{SInt, SStr, SRef} {
		for _, es := range []string{SRef, SStr} {
			fmt.Fprintf(&b, "(declare-fun zeroarr_%s_%s () (Array %s %s))\n(assert (forall ((k %s)) (! (= (select zeroarr_%s_%s k) %s) :pattern ((select zeroarr_%s_%s k)))))\n", ks, es, ks, es, ks, ks, es, zeroOf(es).S, ks, es)
		}
	}
	for _, w := range []int{8, 16, 32, 64} {
		p := pow2(w).String()
		h := pow2(w - 1).String()
		fmt.Fprintf(&b, "(define-fun wrap_u%d ((x Int)) Int (ite (>= x %s) (- x %s) (ite (< x 0) (+ x %s) x)))\n", w, p, p, p)
		fmt.Fprintf(&b, "(define-fun wrapm_u%d ((x Int)) Int (ite (and (<= 0 x) (< x %s)) x (mod x %s)))\n", w, p, p)
		fmt.Fprintf(&b, "(define-fun wrap_s%d ((x Int)) Int (ite (>= x %s) (- x %s) (ite (< x (- %s)) (+ x %s) x)))\n", w, h, p, h, p)
		fmt.Fprintf(&b, "(define-fun wrapm_s%d ((x Int)) Int (ite (and (<= (- %s) x) (< x %s)) x (- (mod (+ x %s) %s) %s)))\n", w, h, h, h, p, h)
		// shifts of a bit-vector by an integer amount: int2bv of the (non-negative) amount,
		// saturated at the width (measured: 0.5 s where a 64-way ite table timed out)
		for _, op := range []string{"bvshl", "bvlshr", "bvashr"} {
			fmt.Fprintf(&b, "(define-fun %s_i%d ((x (_ BitVec %d)) (n Int)) (_ BitVec %d) (%s x (ite (>= n %d) (_ bv%d %d) ((_ int2bv %d) n))))\n", op, w, w, w, op, w, w, w, w)
		}
		// uninterpreted bit operations for Int-mode values
		for _, op := range []string{"and", "or", "xor", "shl", "shr"} {
			fmt.Fprintf(&b, "(declare-fun bit%s_%d (Int Int) Int)\n", op, w)
		}
	}
	b.WriteString("(define-fun tdiv ((a Int) (b Int)) Int (ite (>= a 0) (ite (> b 0) (div a b) (- (div a (- b)))) (ite (> b 0) (- (div (- a) b)) (div (- a) (- b)))))\n")
	b.WriteString("(define-fun trem ((a Int) (b Int)) Int (- a (* b (tdiv a b))))\n")
	return b.String()
}

func (ii intInfo) wrapName(mod bool) string {
	sg := "u"
	if ii.signed {
		sg = "s"
	}
	if mod {
		return fmt.Sprintf("wrapm_%s%d", sg, ii.bits)
	}
	return fmt.Sprintf("wrap_%s%d", sg, ii.bits)
}

func isPow2Minus1(n *big.Int) (int, bool) {
	if n.Sign() <= 0 {
		return 0, false
	}
	m := new(big.Int).Add(n, big.NewInt(1))
	if m.BitLen()-1 > 0 && new(big.Int).And(m, n).Sign() == 0 {
		return m.BitLen() - 1, true
	}
	return 0, false
}

// parse an Int literal term back into a number (for constant special cases)
func litValue(t Term) (*big.Int, bool) {
	s := t.S
	if t.Sort == SInt {
		neg := false
		if strings.HasPrefix(s, "(- ") && strings.HasSuffix(s, ")") {
			neg = true
			s = s[3 : len(s)-1]
		}
		n, ok := new(big.Int).SetString(s, 10)
		if !ok {
			return nil, false
		}
		if neg {
			n.Neg(n)
		}
		return n, true
	}
	if _, ok := isBV(t.Sort); ok && strings.HasPrefix(s, "(_ bv") {
		f := strings.Fields(s[5:])
		n, ok := new(big.Int).SetString(f[0], 10)
		return n, ok
	}
	return nil, false
}

// coerce makes untyped constants take the type of the other operand.
func (s *State) coerce(a, b Val) (Scalar, Scalar, bool) {
	ca, aok := a.(ConstV)
	cb, bok := b.(ConstV)
	sa, asc := a.(Scalar)
	sb, bsc := b.(Scalar)
	switch {
	case asc && bsc:
		return sa, sb, true
	case asc && bok:
		return sa, Scalar{s.toLeaf(cb, sa.T.Sort), sa.Typ}, true
	case aok && bsc:
		return Scalar{s.toLeaf(ca, sb.T.Sort), sb.Typ}, sb, true
	case aok && bok:
		t := types.Typ[types.Int]
		return Scalar{bigLit(ca.N), t}, Scalar{bigLit(cb.N), t}, true
	}
	return Scalar{}, Scalar{}, false
}

// binop implements Go's binary operators on scalars. spec == true relaxes
// typing (mathematical integers do not wrap in specifications).
func (s *State) binop(op token.Token, a, b Val, spec bool) Val {
	// comparisons on non-scalars
	if op == token.EQL || op == token.NEQ {
		if _, ok := a.(Scalar); !ok {
			if _, ok := a.(ConstV); !ok {
				e := s.eqValNil(a, b)
				if op == token.NEQ {
					e = tNot(e)
				}
				return Scalar{e, types.Typ[types.Bool]}
			}
		}
		if _, ok := b.(Scalar); !ok {
			if _, ok := b.(ConstV); !ok {
				e := s.eqValNil(a, b)
				if op == token.NEQ {
					e = tNot(e)
				}
				return Scalar{e, types.Typ[types.Bool]}
			}
		}
	}
	if ca, ok := a.(ConstV); ok {
		if cb, ok := b.(ConstV); ok && spec {
			// constant folding for the common operators
			r := new(big.Int)
			switch op {
			case token.ADD:
				return ConstV{r.Add(ca.N, cb.N)}
			case token.SUB:
				return ConstV{r.Sub(ca.N, cb.N)}
			case token.MUL:
				return ConstV{r.Mul(ca.N, cb.N)}
			case token.SHL:
				return ConstV{r.Lsh(ca.N, uint(cb.N.Int64()))}
			}
		}
	}
	// shifts: operands may have different types
	if op == token.SHL || op == token.SHR {
		return s.shift(op, a, b, spec)
	}
	x, y, ok := s.coerce(a, b)
	if !ok {
		s.c.unsup("binop %s on %T,%T", op, a, b)
		return Scalar{s.c.fresh("binop", SRef), a.Type()}
	}
	boolT := types.Typ[types.Bool]
	if x.T.Sort != y.T.Sort {
		// mixed Int/BV in a spec: lift BV to Int
		if spec {
			x, y = s.toIntSpec(x), s.toIntSpec(y)
		} else {
			s.c.unsup("binop %s sort mismatch %s vs %s", op, x.T.Sort, y.T.Sort)
			return Scalar{s.c.fresh("binop", x.T.Sort), x.Typ}
		}
	}
	switch x.T.Sort {
	case SBool:
		switch op {
		case token.LAND:
			return Scalar{tAnd(x.T, y.T), boolT}
		case token.LOR:
			return Scalar{tOr(x.T, y.T), boolT}
		case token.EQL:
			return Scalar{tEq(x.T, y.T), boolT}
		case token.NEQ:
			return Scalar{tNot(tEq(x.T, y.T)), boolT}
		}
	case SStr:
		switch op {
		case token.EQL:
			return Scalar{tEq(x.T, y.T), boolT}
		case token.NEQ:
			return Scalar{tNot(tEq(x.T, y.T)), boolT}
		case token.LSS:
			return Scalar{app(SBool, "str_lt", x.T, y.T), boolT}
		case token.GTR:
			return Scalar{app(SBool, "str_lt", y.T, x.T), boolT}
		case token.LEQ:
			return Scalar{tNot(app(SBool, "str_lt", y.T, x.T)), boolT}
		case token.GEQ:
			return Scalar{tNot(app(SBool, "str_lt", x.T, y.T)), boolT}
		case token.ADD:
			return Scalar{app(SStr, "str_cat", x.T, y.T), x.Typ}
		}
	case SRef:
		switch op {
		case token.EQL:
			return Scalar{tEq(x.T, y.T), boolT}
		case token.NEQ:
			return Scalar{tNot(tEq(x.T, y.T)), boolT}
		}
	case SInt:
		ii, _ := s.c.pkg.intInfo(x.Typ)
		if _, isc := a.(ConstV); isc {
			ii, _ = s.c.pkg.intInfo(y.Typ)
			x.Typ = y.Typ
		}
		wrap := func(t Term, mod bool) Val {
			if spec {
				return Scalar{t, x.Typ}
			}
			// a result that stays inside the type's range by known bounds (lengths, range counters,
			// literals) needs no wrap-around term
			if lo, hi, ok := s.boundOf(t.S, 0); ok && lo.Cmp(ii.min()) >= 0 && hi.Cmp(ii.max()) <= 0 {
				return Scalar{t, x.Typ}
			}
			return Scalar{app(SInt, ii.wrapName(mod), t), x.Typ}
		}
		switch op {
		case token.ADD:
			return wrap(tAdd(x.T, y.T), false)
		case token.SUB:
			return wrap(tSub(x.T, y.T), false)
		case token.MUL:
			return wrap(app(SInt, "*", x.T, y.T), true)
		case token.QUO:
			if ii.signed {
				// MinInt / -1 wraps
				return wrap(app(SInt, "tdiv", x.T, y.T), false)
			}
			return Scalar{app(SInt, "div", x.T, y.T), x.Typ}
		case token.REM:
			if ii.signed {
				return Scalar{app(SInt, "trem", x.T, y.T), x.Typ}
			}
			return Scalar{app(SInt, "mod", x.T, y.T), x.Typ}
		case token.EQL:
			return Scalar{tEq(x.T, y.T), boolT}
		case token.NEQ:
			return Scalar{tNot(tEq(x.T, y.T)), boolT}
		case token.LSS:
			return Scalar{tLt(x.T, y.T), boolT}
		case token.LEQ:
			return Scalar{tLe(x.T, y.T), boolT}
		case token.GTR:
			return Scalar{tLt(y.T, x.T), boolT}
		case token.GEQ:
			return Scalar{tLe(y.T, x.T), boolT}
		case token.AND:
			if n, ok := litValue(y.T); ok {
				if k, ok := isPow2Minus1(n); ok {
					return Scalar{app(SInt, "mod", x.T, bigLit(pow2(k))), x.Typ}
				}
			}
			if n, ok := litValue(x.T); ok {
				if k, ok := isPow2Minus1(n); ok {
					return Scalar{app(SInt, "mod", y.T, bigLit(pow2(k))), x.Typ}
				}
			}
			return s.uninterpBit("and", ii, x, y)
		case token.OR:
			return s.uninterpBit("or", ii, x, y)
		case token.XOR:
			return s.uninterpBit("xor", ii, x, y)
		case token.AND_NOT:
			// x &^ y = x & (^y)
			ny := Scalar{app(SInt, "-", bigLit(ii.max()), y.T), y.Typ}
			if ii.signed {
				ny = Scalar{app(SInt, "-", intLit(-1), y.T), y.Typ}
			}
			return s.uninterpBit("and", ii, x, ny)
		}
	default:
		if w, ok := isBV(x.T.Sort); ok {
			ii, _ := s.c.pkg.intInfo(x.Typ)
			if _, isc := a.(ConstV); isc {
				ii, _ = s.c.pkg.intInfo(y.Typ)
				x.Typ = y.Typ
			}
			_ = w
			bv := func(f string) Val { return Scalar{app(x.T.Sort, f, x.T, y.T), x.Typ} }
			cmp := func(fu, fs string) Val {
				if ii.signed {
					return Scalar{app(SBool, fs, x.T, y.T), boolT}
				}
				return Scalar{app(SBool, fu, x.T, y.T), boolT}
			}
			switch op {
			case token.ADD:
				return bv("bvadd")
			case token.SUB:
				return bv("bvsub")
			case token.MUL:
				return bv(fmt.Sprintf("bvmul@%d", w))
			case token.QUO:
				if ii.signed {
					return bv(fmt.Sprintf("bvsdiv@%d", w))
				}
				return bv(fmt.Sprintf("bvudiv@%d", w))
			case token.REM:
				if ii.signed {
					return bv(fmt.Sprintf("bvsrem@%d", w))
				}
				return bv(fmt.Sprintf("bvurem@%d", w))
			case token.AND:
				return bv("bvand")
			case token.OR:
				return bv("bvor")
			case token.XOR:
				return bv("bvxor")
			case token.AND_NOT:
				return Scalar{app(x.T.Sort, "bvand", x.T, app(x.T.Sort, "bvnot", y.T)), x.Typ}
			case token.EQL:
				return Scalar{tEq(x.T, y.T), boolT}
			case token.NEQ:
				return Scalar{tNot(tEq(x.T, y.T)), boolT}
			case token.LSS:
				return cmp("bvult", "bvslt")
			case token.LEQ:
				return cmp("bvule", "bvsle")
			case token.GTR:
				return cmp("bvugt", "bvsgt")
			case token.GEQ:
				return cmp("bvuge", "bvsge")
			}
		}
	}
	s.c.unsup("binop %s on sort %s", op, x.T.Sort)
	return Scalar{s.c.fresh("binop", x.T.Sort), x.Typ}
}

func (s *State) uninterpBit(name string, ii intInfo, x, y Scalar) Val {
	s.c.unsup("bit operation %s on mathematical-mode integer (uninterpreted)", name)
	return Scalar{app(SInt, fmt.Sprintf("bit%s_%d", name, ii.bits), x.T, y.T), x.Typ}
}

func (s *State) toIntSpec(x Scalar) Scalar {
	if _, ok := isBV(x.T.Sort); ok {
		ii, _ := s.c.pkg.intInfo(x.Typ)
		return Scalar{s.bvToInt(x.T, ii), x.Typ}
	}
	return x
}

func (s *State) bvToInt(t Term, ii intInfo) Term {
	if s.c.sorts == nil {
		s.c.sorts = map[string]string{}
	}
	s.c.sorts[t.S] = t.Sort // remembered so that int2bv(bv2nat t) can be simplified back to t
	wd, _ := isBV(t.Sort)
	u := app(SInt, fmt.Sprintf("bv2nat@%d", wd), t)
	if ii.signed {
		return tIte(tLt(u, bigLit(pow2(ii.bits-1))), u, tSub(u, bigLit(pow2(ii.bits))))
	}
	return u
}

func (s *State) shift(op token.Token, a, b Val, spec bool) Val {
	x, xok := a.(Scalar)
	if ca, ok := a.(ConstV); ok {
		// untyped constant shifted: in Go it takes the type from context; in specs assume it
		// is used with BV operands only when the context says so (handled by caller via typed consts)
		x = Scalar{bigLit(ca.N), types.Typ[types.Int]}
		xok = true
	}
	if !xok {
		s.c.unsup("shift of %T", a)
		return Scalar{s.c.fresh("shift", SInt), a.Type()}
	}
	// shift amount as Int term (non-negative)
	var amt Term
	switch y := b.(type) {
	case ConstV:
		amt = bigLit(y.N)
	case Scalar:
		if _, ok := isBV(y.T.Sort); ok {
			yi, _ := s.c.pkg.intInfo(y.Typ)
			// BV shift amount
			if xw, ok := isBV(x.T.Sort); ok {
				yw, _ := isBV(y.T.Sort)
				var yy Term
				switch {
				case yw == xw:
					yy = y.T
				case yw < xw:
					yy = app(x.T.Sort, fmt.Sprintf("(_ zero_extend %d)", xw-yw), y.T)
				default:
					// saturate
					big_ := app(SBool, "bvuge", y.T, bvLit(big.NewInt(int64(xw)), yw))
					yy = tIte(big_, bvLit(big.NewInt(int64(xw)), xw), app(x.T.Sort, fmt.Sprintf("(_ extract %d 0)", xw-1), y.T))
				}
				xi, _ := s.c.pkg.intInfo(x.Typ)
				f := "bvshl"
				if op == token.SHR {
					f = "bvlshr"
					if xi.signed {
						f = "bvashr"
					}
				}
				return Scalar{app(x.T.Sort, f, x.T, yy), x.Typ}
			}
			amt = s.bvToInt(y.T, yi)
		} else {
			amt = y.T
		}
	default:
		s.c.unsup("shift amount %T", b)
		return Scalar{s.c.fresh("shift", x.T.Sort), x.Typ}
	}
	xi, _ := s.c.pkg.intInfo(x.Typ)
	if w, ok := isBV(x.T.Sort); ok {
		f := "bvshl"
		if op == token.SHR {
			f = "bvlshr"
			if xi.signed {
				f = "bvashr"
			}
		}
		if n, ok := litValue(amt); ok {
			if n.Cmp(big.NewInt(int64(w))) >= 0 {
				n = big.NewInt(int64(w))
			}
			return Scalar{app(x.T.Sort, f, x.T, bvLit(n, w)), x.Typ}
		}
		return Scalar{app(x.T.Sort, fmt.Sprintf("%s_i%d", f, w), x.T, amt), x.Typ}
	}
	// Int-mode value
	if n, ok := litValue(amt); ok && n.IsInt64() && n.Int64() < 1024 {
		k := int(n.Int64())
		if op == token.SHL {
			t := app(SInt, "*", x.T, bigLit(pow2(k)))
			if spec {
				return Scalar{t, x.Typ}
			}
			return Scalar{app(SInt, xi.wrapName(true), t), x.Typ}
		}
		return Scalar{app(SInt, "div", x.T, bigLit(pow2(k))), x.Typ}
	}
	nm := "shl"
	if op == token.SHR {
		nm = "shr"
	}
	s.c.unsup("shift by symbolic amount on mathematical-mode integer (uninterpreted)")
	return Scalar{app(SInt, fmt.Sprintf("bit%s_%d", nm, xi.bits), x.T, amt), x.Typ}
}

// eqValNil compares structured values, including comparison against nil.
func (s *State) eqValNil(a, b Val) Term {
	isNilConst := func(v Val) bool {
		switch x := v.(type) {
		case PtrV:
			return x.Sym == "" && x.Obj == 0 && x.Typ == nil
		}
		return false
	}
	if isNilConst(a) {
		a, b = b, a
	}
	if isNilConst(b) || isUntypedNil(b) {
		switch x := a.(type) {
		case SliceV:
			return x.Nil
		case PtrV:
			if x.Sym != "" {
				return tEq(Term{x.Sym, SRef}, Term{"ref_nil", SRef})
			}
			if x.Obj == 0 {
				return tTrue
			}
			return tFalse
		case IfaceV:
			if x.Dyn != nil {
				return tFalse
			}
			return tEq(x.Tag, Term{"ref_nil", SRef})
		case MapV:
			return x.Nil
		case Scalar:
			if x.T.Sort == SRef {
				return tEq(x.T, Term{"ref_nil", SRef})
			}
		case FuncV:
			return tFalse
		}
	}
	return s.eqVal(a, b)
}

func isUntypedNil(v Val) bool {
	if sc, ok := v.(Scalar); ok {
		if b, ok := sc.Typ.(*types.Basic); ok && b.Kind() == types.UntypedNil {
			return true
		}
	}
	return false
}

// convert implements Go conversions between basic types.
func (s *State) convert(v Val, to types.Type) Val {
	p := s.c.pkg
	if cv, ok := v.(ConstV); ok {
		if ti, ok := p.intInfo(to); ok {
			return Scalar{s.toLeaf(cv, ti.sort()), to}
		}
	}
	sc, ok := v.(Scalar)
	if !ok {
		// string(bytes), []byte(string) etc.
		switch to.Underlying().(type) {
		case *types.Slice, *types.Basic:
			return s.freshVal(to, "conv", 0)
		}
		s.c.unsup("conversion of %T to %s", v, to)
		return s.freshVal(to, "conv", 0)
	}
	fi, fok := p.intInfo(sc.Typ)
	ti, tok := p.intInfo(to)
	if !fok || !tok {
		if p.scalarSort(to) == sc.T.Sort && !fok && !tok {
			return Scalar{sc.T, to}
		}
		// e.g. string(rune), float conversions, string <-> []byte
		return s.freshVal(to, "conv", 0)
	}
	switch {
	case !fi.bv && !ti.bv:
		t := sc.T
		fits := fi.min().Cmp(ti.min()) >= 0 && fi.max().Cmp(ti.max()) <= 0
		switch {
		case fits:
		case fi.bits == ti.bits:
			t = app(SInt, ti.wrapName(false), t)
		default:
			t = app(SInt, ti.wrapName(true), t)
		}
		return Scalar{t, to}
	case fi.bv && ti.bv:
		t := sc.T
		switch {
		case fi.bits == ti.bits:
		case fi.bits > ti.bits:
			t = app(ti.sort(), fmt.Sprintf("(_ extract %d 0)", ti.bits-1), t)
		case fi.signed:
			t = app(ti.sort(), fmt.Sprintf("(_ sign_extend %d)", ti.bits-fi.bits), t)
		default:
			t = app(ti.sort(), fmt.Sprintf("(_ zero_extend %d)", ti.bits-fi.bits), t)
		}
		return Scalar{t, to}
	case fi.bv && !ti.bv:
		t := s.bvToInt(sc.T, fi)
		fits := fi.min().Cmp(ti.min()) >= 0 && fi.max().Cmp(ti.max()) <= 0
		if !fits {
			if fi.bits == ti.bits {
				t = app(SInt, ti.wrapName(false), t)
			} else {
				t = app(SInt, ti.wrapName(true), t)
			}
		}
		return Scalar{t, to}
	default: // Int -> BV
		// a value that came from a bit-vector of the same width goes back unchanged
		// (int2bv(bv2nat x) = x, also through the signed reinterpretation)
		inner := sc.T.S
		for _, w := range []string{"wrap_s", "wrap_u", "wrapm_s", "wrapm_u"} {
			pre := fmt.Sprintf("(%s%d ", w, ti.bits)
			if strings.HasPrefix(inner, pre) && strings.HasSuffix(inner, ")") {
				inner = inner[len(pre) : len(inner)-1]
				break
			}
		}
		if pre := fmt.Sprintf("(bv2nat@%d ", ti.bits); strings.HasPrefix(inner, pre) && strings.HasSuffix(inner, ")") {
			x := inner[len(pre) : len(inner)-1]
			if balanced(x) {
				// the width of x must be the target width: bv2nat of a narrower vector zero-extends
				if w, ok := s.c.bvWidthOf(x); ok && w == ti.bits {
					return Scalar{Term{x, ti.sort()}, to}
				}
			}
		}
		return Scalar{app(ti.sort(), fmt.Sprintf("int2bv@%d", ti.bits), sc.T), to}
	}
}

func (s *State) unop(op token.Token, v Val, spec bool) Val {
	if cv, ok := v.(ConstV); ok {
		switch op {
		case token.SUB:
			return ConstV{new(big.Int).Neg(cv.N)}
		case token.ADD:
			return cv
		}
	}
	sc, ok := v.(Scalar)
	if !ok {
		s.c.unsup("unary %s on %T", op, v)
		return v
	}
	switch op {
	case token.NOT:
		return Scalar{tNot(sc.T), sc.Typ}
	case token.SUB:
		if _, ok := isBV(sc.T.Sort); ok {
			return Scalar{app(sc.T.Sort, "bvneg", sc.T), sc.Typ}
		}
		ii, _ := s.c.pkg.intInfo(sc.Typ)
		t := app(SInt, "-", sc.T)
		if spec {
			return Scalar{t, sc.Typ}
		}
		return Scalar{app(SInt, ii.wrapName(false), t), sc.Typ}
	case token.XOR:
		if _, ok := isBV(sc.T.Sort); ok {
			return Scalar{app(sc.T.Sort, "bvnot", sc.T), sc.Typ}
		}
		ii, _ := s.c.pkg.intInfo(sc.Typ)
		if ii.signed {
			return Scalar{app(SInt, "-", intLit(-1), sc.T), sc.Typ}
		}
		return Scalar{app(SInt, "-", bigLit(ii.max()), sc.T), sc.Typ}
	case token.ADD:
		return sc
	}
	s.c.unsup("unary %s", op)
	return sc
}

func balanced(x string) bool {
	d := 0
	for _, r := range x {
		switch r {
		case '(':
			d++
		case ')':
			d--
			if d < 0 {
				return false
			}
		}
	}
	return d == 0
}

var lenSymRe = regexp.MustCompile(`\.(len|cap)![0-9]+\|$`)

// boundOf: integer bounds of a term that follow from facts every path assumes (slice lengths and
// capacities are in [0, 2^48], range counters in [-1, length]); used to elide wrap-around terms.
func (s *State) boundOf(t string, depth int) (*big.Int, *big.Int, bool) {
	if depth > 6 {
		return nil, nil, false
	}
	if b, ok := s.bounds[t]; ok {
		return b[0], b[1], true
	}
	if n, ok := new(big.Int).SetString(t, 10); ok {
		return n, n, true
	}
	if strings.HasPrefix(t, "|") && lenSymRe.MatchString(t) {
		return big.NewInt(0), pow2(maxLenBits), true
	}
	ch, ok := sexprChildren(t)
	if !ok || len(ch) < 2 {
		return nil, nil, false
	}
	switch ch[0] {
	case "-":
		if len(ch) == 2 {
			lo, hi, ok := s.boundOf(ch[1], depth+1)
			if !ok {
				return nil, nil, false
			}
			return new(big.Int).Neg(hi), new(big.Int).Neg(lo), true
		}
		if len(ch) == 3 {
			alo, ahi, ok1 := s.boundOf(ch[1], depth+1)
			blo, bhi, ok2 := s.boundOf(ch[2], depth+1)
			if ok1 && ok2 {
				return new(big.Int).Sub(alo, bhi), new(big.Int).Sub(ahi, blo), true
			}
		}
	case "+":
		lo, hi := big.NewInt(0), big.NewInt(0)
		for _, c := range ch[1:] {
			clo, chi, ok := s.boundOf(c, depth+1)
			if !ok {
				return nil, nil, false
			}
			lo, hi = new(big.Int).Add(lo, clo), new(big.Int).Add(hi, chi)
		}
		return lo, hi, true
	}
	return nil, nil, false
}
