package main

import (
	"encoding/json"
	"flag"
	"fmt"
	"os"
	"path/filepath"
	"regexp"
	"runtime"
	"sort"
	"strconv"
	"strings"
	"time"
)

const verifRoot = "/verif"

// propPkgs: which packages carry contracts for a property.
var propPkgs = map[string][]string{
	"C17": {"./internal/tools/bitmask"},
	"C01": {"./internal/index"},
	"C18": {"./internal/tools/regexAnalysis"},
	"C07": {"./internal/index", "./internal/index/manager"},
	"C10": {"./internal/index/manager"},
	"C15": {"./internal/index/converters"},
	"C14": {"./internal/query"},
	"C03": {"./internal/query"},
	"C02": {"./internal/index"},
	"C11": {"./internal/index/manager"},
	"C05": {"./internal/index/streams"},
	"C08": {"./internal/index/builder"},
	"C12": {"./internal/index/manager", "./internal/index"},
	"C13": {"./internal/index/manager"},
	"C16": {"./internal/index/manager", "./internal/index/converters"},
	"C19": {"./cmd/pkappa2"},
	"C06": {"./internal/index/manager"},
	"C04": {"./internal/index"},
}

// propLevel: the evidence level, equal to MANIFEST level_claimed.category. C02 is mostly a bounded
// stand-in around one proved filter, so it is not claimed at proof level.
func propLevel(prop string) string {
	if prop == "C02" || prop == "C06" || prop == "C04" || prop == "C13" || prop == "C12" || prop == "C16" || prop == "C08" || prop == "C19" || prop == "C05" {
		return "other"
	}
	return "proof"
}

type Finding struct {
	Kind string // finding | fixed
	Prop string
	Obl  string // obligation name (finding) / commit (fixed)
	Text string
}

func loadFindings() []Finding {
	data, err := os.ReadFile(filepath.Join(verifRoot, "known-findings.txt"))
	if err != nil {
		return nil
	}
	var out []Finding
	re := regexp.MustCompile(`^(finding|fixed):\s+property=(\S+)\s+(?:obligation=)?(\S+)\s*(.*)$`)
	for _, l := range strings.Split(string(data), "\n") {
		l = strings.TrimSpace(l)
		if m := re.FindStringSubmatch(l); m != nil {
			out = append(out, Finding{Kind: m[1], Prop: m[2], Obl: strings.ReplaceAll(m[3], "\\ ", " "), Text: m[4]})
		}
	}
	return out
}

func oblFile(name string) string {
	var b strings.Builder
	for _, r := range name {
		switch {
		case r >= 'a' && r <= 'z', r >= 'A' && r <= 'Z', r >= '0' && r <= '9', r == '.', r == '-', r == '_':
			b.WriteRune(r)
		default:
			b.WriteRune('_')
		}
	}
	return b.String()
}

type sample struct {
	Name      string  `json:"obligation"`
	Kind      string  `json:"kind"`
	Text      string  `json:"clause"`
	Where     string  `json:"where"`
	Instances int     `json:"path_instances"`
	Status    string  `json:"status"`
	Backends  string  `json:"backends"`
	Secs      float64 `json:"solver_s"`
	SMTBytes  int     `json:"smt_bytes"`
}

func cmdCheck(args []string) {
	fs := flag.NewFlagSet("check", flag.ExitOnError)
	tier := fs.String("tier", envOr("VERIF_TIER", "quick"), "quick|thorough")
	writeBaseline := fs.Bool("write-baseline", false, "maintenance: record the obligation names of this run as the baseline")
	fs.Parse(args)
	if fs.NArg() != 1 {
		fmt.Fprintln(os.Stderr, "usage: gvc check [--tier quick|thorough] <property>")
		os.Exit(2)
	}
	prop := fs.Arg(0)
	seed, _ := strconv.Atoi(os.Getenv("VERIF_SEED"))
	t0 := time.Now()
	pkgs := propPkgs[prop]
	if len(pkgs) == 0 && len(propStandins[prop]) == 0 {
		fmt.Fprintf(os.Stderr, "property %s has no contracts (see MANIFEST not_applicable)\n", prop)
		os.Exit(2)
	}
	pks, err := loadPackages(pkgs)
	if err != nil {
		fmt.Fprintln(os.Stderr, "load:", err)
		fmt.Printf("VIOLATION property=%s replay=%s no-failing-input-found\n", prop, writeReplay(prop, "engine_load", map[string]any{"obligation": "engine/load", "error": err.Error()}))
		os.Exit(1)
	}
	tmp, _ := os.MkdirTemp("", "gvc-")
	defer os.RemoveAll(tmp)
	cfg := &SolverCfg{Timeout: 20 * time.Second, Quick: 3 * time.Second, Workers: runtime.NumCPU(), TmpDir: tmp}
	if *tier == "thorough" {
		cfg.Timeout = 60 * time.Second
		cfg.AllAgree = true
	}
	var reps []*FuncReport
	var funcsUnder []string
	var trustedFuncs []string
	assumedSet := map[string]bool{}
	unsupSet := map[string]bool{}
	for _, pk := range pks {
		var keys []string
		for k, con := range pk.contracts.Funcs {
			if contractTouches(con, prop) {
				keys = append(keys, k)
			}
		}
		sort.Strings(keys)
		for _, k := range keys {
			con := pk.contracts.Funcs[k]
			r := pk.verifyFunc(k, con)
			reps = append(reps, r)
			if con.Trusted {
				trustedFuncs = append(trustedFuncs, pk.path+"."+k)
				assumedSet["trusted contract (body not verified): "+pk.path+"."+k] = true
			} else {
				funcsUnder = append(funcsUnder, pk.path+"."+k)
			}
			for _, a := range r.Assumed {
				assumedSet[a] = true
			}
			for _, u := range r.Unsupported {
				unsupSet[k+": "+u] = true
			}
		}
		lr := pk.verifyLemmas()
		var keep []*Obligation
		for _, o := range lr.Obls {
			if o.Prop == prop {
				keep = append(keep, o)
			}
		}
		lr.Obls = keep
		reps = append(reps, lr)
		for _, l := range pk.contracts.Lemmas {
			if l.Axiom && l.Prop == prop {
				assumedSet["axiom "+l.Name+": "+l.Cl.Text] = true
			}
		}
		for _, a := range pk.contracts.Assumes {
			assumedSet[a] = true
		}
	}
	var all []*Obligation
	for _, r := range reps {
		for _, o := range r.Obls {
			if o.Prop == prop || o.Prop == "" {
				all = append(all, o)
			}
		}
	}
	smtBytes := map[*Obligation]int{}
	for _, o := range all {
		for _, in := range o.Instances {
			if in.Verdict == "" {
				smtBytes[o] += len(smtText(in, o.Cover))
			}
		}
	}
	solveAll(all, cfg)

	findings := loadFindings()
	known := map[string]Finding{}
	for _, f := range findings {
		if f.Kind == "finding" && f.Prop == prop {
			known[f.Obl] = f
		}
	}
	// baseline (drift detection for functional obligations)
	basePath := filepath.Join(verifRoot, "baseline", prop+".txt")
	if *writeBaseline {
		var names []string
		for _, o := range all {
			if o.Kind != "safe" && o.Kind != "cover" {
				names = append(names, o.Name)
			}
		}
		sort.Strings(names)
		os.MkdirAll(filepath.Dir(basePath), 0o755)
		os.WriteFile(basePath, []byte(strings.Join(names, "\n")+"\n"), 0o644)
	}
	present := map[string]bool{}
	for _, o := range all {
		present[o.Name] = true
	}
	var violations []string
	var knownHit []string
	report := func(o *Obligation, why string) {
		if f, ok := known[o.Name]; ok {
			knownHit = append(knownHit, fmt.Sprintf("KNOWN-FINDING: property=%s %s: %s", prop, o.Name, f.Text))
			return
		}
		payload := map[string]any{"property": prop, "obligation": o.Name, "kind": o.Kind, "clause": o.Text, "where": o.Where, "status": why}
		var insts []map[string]any
		for _, in := range o.Instances {
			if in.Verdict == "unsat" && !o.Cover {
				continue
			}
			insts = append(insts, map[string]any{"path": in.Path, "verdict": in.Verdict, "solver": in.Solver, "solver_output": in.Output, "goal": truncate(in.Goal.S, 4000)})
		}
		payload["failing_instances"] = insts
		replayed, detail := tryReplay(prop, o)
		payload["replay"] = detail
		path := writeReplay(prop, oblFile(o.Name), payload)
		line := fmt.Sprintf("VIOLATION property=%s replay=%s", prop, path)
		if !replayed {
			line += " no-failing-input-found"
		}
		violations = append(violations, line+"\n  obligation "+o.Name+" ("+why+"): "+o.Text)
	}
	nObl, nDis := 0, 0
	byKind := map[string]int{}
	backends := map[string]int{}
	solverSecs := 0.0
	var samples []sample
	for _, o := range all {
		st := o.status()
		_, isKnown := known[o.Name]
		if !isKnown {
			nObl++
			byKind[o.Kind]++
		}
		bk := map[string]bool{}
		secs := 0.0
		for _, in := range o.Instances {
			if in.Solver != "" {
				bk[in.Solver] = true
				backends[in.Solver]++
			}
			secs += in.Secs
		}
		solverSecs += secs
		if st == "discharged" {
			if !isKnown {
				nDis++
			} else {
				// a listed finding that no longer fails: say so (the entry should become `fixed:`)
				fmt.Printf("NOTE: listed finding %s is discharged now\n", o.Name)
			}
		} else {
			report(o, st)
		}
		if len(samples) < 12 || st != "discharged" {
			samples = append(samples, sample{o.Name, o.Kind, o.Text, o.Where, len(o.Instances), st, strings.Join(keysOf(bk), ","), secs, smtBytes[o]})
		}
	}
	if data, err := os.ReadFile(basePath); err == nil {
		for _, n := range strings.Split(strings.TrimSpace(string(data)), "\n") {
			if n != "" && !present[n] {
				nObl++
				o := &Obligation{Name: n, Kind: "drift", Prop: prop, Text: "obligation recorded for the unchanged tree no longer exists (function, loop or clause removed/renamed)"}
				o.Instances = []*Instance{{Verdict: "unknown", Output: "missing obligation"}}
				report(o, "drift")
			}
		}
	}
	// bounded stand-ins (never counted as obligations)
	var standinEv []map[string]any
	for _, sd := range propStandins[prop] {
		r := runStandin(sd, *tier)
		ev := map[string]any{"name": sd.Name, "bounded": true, "bound": sd.Bound, "evaluations": r.Evaluations, "distinct_nontrivial": r.Nontrivial, "samples": r.Samples, "seconds": r.Secs, "failures": len(r.Failures)}
		if r.Err != "" {
			ev["error"] = r.Err
			path := writeReplay(prop, "standin_"+sd.Name+"_error", map[string]any{"property": prop, "obligation": "standin:" + sd.Name, "error": r.Err})
			violations = append(violations, fmt.Sprintf("VIOLATION property=%s replay=%s no-failing-input-found\n  stand-in %s could not run: %s", prop, path, sd.Name, truncate(r.Err, 300)))
		}
		byClass := map[string][]map[string]string{}
		for _, f := range r.Failures {
			byClass[f["class"]] = append(byClass[f["class"]], f)
		}
		var classes []string
		for c := range byClass {
			classes = append(classes, c)
		}
		sort.Strings(classes)
		for _, c := range classes {
			fs := byClass[c]
			name := "standin:" + sd.Name + ":" + c
			if f, ok := known[name]; ok {
				knownHit = append(knownHit, fmt.Sprintf("KNOWN-FINDING: property=%s %s (%d inputs, e.g. %s): %s", prop, name, len(fs), fs[0]["input"], f.Text))
				continue
			}
			n := len(fs)
			if n > 20 {
				fs = fs[:20]
			}
			path := writeReplay(prop, oblFile(name), map[string]any{"property": prop, "obligation": name, "bounded_standin": sd.Name, "failing_inputs": fs, "total_failing": n,
				"replay": map[string]any{"replayed": true, "how": "the stand-in runs the real functions; rerun: ./check " + prop}})
			violations = append(violations, fmt.Sprintf("VIOLATION property=%s replay=%s\n  bounded stand-in %s, class %s: %s", prop, path, sd.Name, c, fs[0]["detail"]))
		}
		standinEv = append(standinEv, ev)
	}
	wall := time.Since(t0).Seconds()
	// evidence
	var assumed []string
	for a := range assumedSet {
		assumed = append(assumed, a)
	}
	sort.Strings(assumed)
	var unsup []string
	for u := range unsupSet {
		unsup = append(unsup, u)
	}
	sort.Strings(unsup)
	assumptions := append([]string{
		"go/ssa (x/tools v0.50.0) NaiveForm is a faithful translation of the Go source; the Go compiler and runtime are trusted",
		"gvc's symbolic semantics of SSA instructions (DESIGN 2.2-2.3): slices are windows into owned backing arrays, distinct slice-typed inputs/fields do not share arrays, append yields a fresh array with the same contents (functions marked `appendinplace` are verified with both outcomes of append: in place into spare capacity, and fresh); fields of objects reached through unknown pointers are uninterpreted heap functions of the reference, re-versioned whenever un-contracted code may have run",
		"allocations succeed, so every slice length/capacity is at most 2^48 (runtime maxAlloc on amd64)",
		"integers: mathematical Int with exact wrap-around per Go type, except the kinds listed under bit-vector mode in the contract file",
		"SMT solvers z3 5.1.0, z3 4.8.12, cvc5 1.0.3 are sound (an unsat answer from one of them discharges an instance)",
	}, assumed...)
	for _, u := range unsup {
		assumptions = append(assumptions, "abstracted (over-approximated) in "+u)
	}
	cov := map[string]any{
		"obligations":              nObl,
		"discharged":               nDis,
		"checker_cmd":              fmt.Sprintf("/verif/bin/gvc check --tier %s %s", *tier, prop),
		"trusted_base":             []string{"z3-new 5.1.0", "/usr/bin/z3 4.8.12", "cvc5 1.0.3", "golang.org/x/tools/go/ssa v0.50.0 (NaiveForm)", "gvc VC generator (/verif/gvc)", "go1.26.8 toolchain"},
		"functions_under_contract": funcsUnder,
		"trusted_functions":        trustedFuncs,
		"obligations_by_kind":      byKind,
		"instances_by_backend":     backends,
		"solver_seconds":           solverSecs,
		"samples":                  samples,
		"known_findings":           knownHit,
		"bounded_standins":         standinEv,
		"packages":                 pkgs,
		"explanation":              "every obligation is generated from /repo's current working tree on this run; an obligation counts as discharged only if every path instance is unsat in at least one solver; cover:* obligations are vacuity probes that must not be unsat",
	}
	ev := map[string]any{
		"property_id": prop, "tier": *tier, "seed": seed, "level": propLevel(prop),
		"coverage": cov, "assumptions": assumptions, "wall_s": wall, "violations": len(violations),
	}
	os.MkdirAll(filepath.Join(verifRoot, "evidence"), 0o755)
	data, _ := json.MarshalIndent(ev, "", " ")
	os.WriteFile(filepath.Join(verifRoot, "evidence", prop+".json"), data, 0o644)

	for _, k := range knownHit {
		fmt.Println(k)
	}
	fmt.Printf("property %s: %d obligations, %d discharged, %d known findings, %d violations, %.1fs (solver %.1fs)\n", prop, nObl, nDis, len(knownHit), len(violations), wall, solverSecs)
	if len(violations) > 0 {
		for _, v := range violations {
			fmt.Println(v)
		}
		os.RemoveAll(tmp) // deferred calls do not run on os.Exit
		os.Exit(1)
	}
}

func contractTouches(con *FuncContract, prop string) bool {
	if con.Prop == prop {
		return true
	}
	for _, cl := range con.Ensures {
		if cl.Prop == prop {
			return true
		}
	}
	for _, ls := range con.Loops {
		for _, cl := range ls.Inv {
			if cl.Prop == prop {
				return true
			}
		}
	}
	for _, sa := range con.Sites {
		if sa.Cl.Prop == prop {
			return true
		}
	}
	return false
}

func truncate(s string, n int) string {
	if len(s) > n {
		return s[:n] + "..."
	}
	return s
}

func writeReplay(prop, name string, payload map[string]any) string {
	dir := filepath.Join(verifRoot, "replays", prop)
	os.MkdirAll(dir, 0o755)
	p := filepath.Join(dir, name+".json")
	data, _ := json.MarshalIndent(payload, "", " ")
	os.WriteFile(p, data, 0o644)
	return p
}

// tryReplay: family-specific replay of a counterexample on the real code.
func tryReplay(prop string, o *Obligation) (bool, map[string]any) {
	if o.PkgDir == "" || (o.Kind != "post" && o.Kind != "safe") {
		return false, map[string]any{"replayed": false, "reason": "only postcondition and run-time-check obligations of whole functions carry a model over the function's inputs (loop, frame, assertion and lemma obligations speak about intermediate or quantified states)"}
	}
	return replayObligation(o, o.PkgDir)
}
