package main

// Replay of a solver counterexample on the real code.
//
// For a refuted obligation the model is projected onto the function's inputs (receiver and parameters as
// they are at entry); a Go test is generated that builds exactly those inputs, calls the real function
// (injected into the package with `go test -overlay`, nothing is written to /repo) and reports what
// happened. A run-time-check obligation (index, slice, nil, division, map write) is replayed when the real
// call panics. A postcondition obligation is replayed when the real call returns, and leaves behind,
// exactly the values the failing path of the model predicts: the verifier's counterexample is then the
// behaviour of the real code, and the clause is false for it. Anything the generator cannot build
// (closures, interfaces, maps, unknown pointers, slices longer than 32 elements, nested slices) is not
// replayed; the violation is then reported with no-failing-input-found.

import (
	"context"
	"encoding/json"
	"fmt"
	"go/types"
	"math/big"
	"os"
	"os/exec"
	"path/filepath"
	"sort"
	"strconv"
	"strings"
	"time"

	"golang.org/x/tools/go/ssa"
)

type ReplayInfo struct {
	fx      *FuncExec
	kind    string // safe | post
	st      *State // state at the obligation (post: at the return)
	results []Val
}

type obsNode struct {
	Kind   string // scalar string struct slice ptr nilptr
	Typ    types.Type
	T      Term
	Fields []*obsNode
	Len    Term
	Off    Term
	Tree   SeqTree
	ElemT  types.Type
	Ptr    *obsNode
	// after evaluation
	Lit   string
	N     int
	Elems []*obsNode
	Str   []byte
}

type replayBuilder struct {
	pkg  *types.Package
	errs []string
	// evaluation
	terms []string
	sinks []func(string)
	imps  map[string]string
	pins  []string // values already read from the model: later solver runs must extend the same model
}

func (rb *replayBuilder) fail(f string, a ...any) *obsNode {
	rb.errs = append(rb.errs, fmt.Sprintf(f, a...))
	return nil
}

func (rb *replayBuilder) collect(st *State, v Val, t types.Type, depth int) *obsNode {
	if depth > 6 || v == nil {
		return rb.fail("value too deep or missing")
	}
	switch x := v.(type) {
	case Scalar:
		if x.T.Sort == SStr {
			return &obsNode{Kind: "string", Typ: t, T: x.T}
		}
		if x.T.Sort == SRef {
			return rb.fail("reference-typed scalar")
		}
		return &obsNode{Kind: "scalar", Typ: t, T: x.T}
	case ConstV:
		return &obsNode{Kind: "scalar", Typ: t, Lit: x.N.String()}
	case StructV:
		st2, ok := t.Underlying().(*types.Struct)
		if !ok || st2.NumFields() != len(x.F) {
			return rb.fail("struct shape")
		}
		n := &obsNode{Kind: "struct", Typ: t}
		for i, f := range x.F {
			c := rb.collect(st, f, st2.Field(i).Type(), depth+1)
			if c == nil {
				return nil
			}
			n.Fields = append(n.Fields, c)
		}
		return n
	case SliceV:
		sl, ok := t.Underlying().(*types.Slice)
		if !ok {
			return rb.fail("slice type")
		}
		n := &obsNode{Kind: "slice", Typ: t, Len: x.Len, Off: x.Off, ElemT: sl.Elem()}
		if x.Arr != 0 {
			seq, ok := st.objs[x.Arr].(SeqV)
			if !ok {
				return rb.fail("slice without array")
			}
			n.Tree = seq.Tree
		} else {
			n.Len = intLit(0)
		}
		return n
	case PtrV:
		if x.Sym != "" {
			return rb.fail("unknown pointer")
		}
		if x.Obj == 0 {
			return &obsNode{Kind: "nilptr", Typ: t}
		}
		pt, ok := t.Underlying().(*types.Pointer)
		if !ok || len(x.Path) != 0 {
			return rb.fail("interior pointer")
		}
		pv, ok := st.load(x)
		if !ok {
			return rb.fail("pointer does not load")
		}
		c := rb.collect(st, pv, pt.Elem(), depth+1)
		if c == nil {
			return nil
		}
		return &obsNode{Kind: "ptr", Typ: t, Ptr: c}
	}
	return rb.fail("unsupported value %T", v)
}

// ask registers a term to be evaluated in the model.
func (rb *replayBuilder) ask(t Term, sink func(string)) {
	rb.terms = append(rb.terms, t.S)
	rb.sinks = append(rb.sinks, sink)
}

func parseModelInt(v string) (*big.Int, bool) {
	v = strings.TrimSpace(v)
	if strings.HasPrefix(v, "#x") {
		n, ok := new(big.Int).SetString(v[2:], 16)
		return n, ok
	}
	if strings.HasPrefix(v, "#b") {
		n, ok := new(big.Int).SetString(v[2:], 2)
		return n, ok
	}
	if strings.HasPrefix(v, "(- ") {
		n, ok := new(big.Int).SetString(strings.TrimSuffix(v[3:], ")"), 10)
		if ok {
			n.Neg(n)
		}
		return n, ok
	}
	n, ok := new(big.Int).SetString(v, 10)
	return n, ok
}

// phase1: scalars, lengths; phase2: elements, characters.
func (rb *replayBuilder) phase1(n *obsNode) {
	switch n.Kind {
	case "scalar":
		if n.Lit == "" {
			rb.ask(n.T, func(v string) {
				if v == "true" || v == "false" {
					n.Lit = v
				} else if i, ok := parseModelInt(v); ok {
					n.Lit = i.String()
				} else {
					rb.errs = append(rb.errs, "model value "+v)
				}
			})
		}
	case "string":
		rb.ask(app(SInt, "strlen", n.T), func(v string) {
			if i, ok := parseModelInt(v); ok && i.IsInt64() && i.Int64() <= 64 {
				n.N = int(i.Int64())
			} else {
				rb.errs = append(rb.errs, "string too long: "+v)
			}
		})
	case "struct":
		for _, f := range n.Fields {
			rb.phase1(f)
		}
	case "slice":
		rb.ask(n.Len, func(v string) {
			if i, ok := parseModelInt(v); ok && i.IsInt64() && i.Int64() >= 0 && i.Int64() <= 32 {
				n.N = int(i.Int64())
			} else {
				rb.errs = append(rb.errs, "slice too long for a replay: "+v)
			}
		})
		rb.ask(n.Off, func(v string) {
			if i, ok := parseModelInt(v); ok {
				n.Off = bigLit(i)
			}
		})
	case "ptr":
		rb.phase1(n.Ptr)
	}
}

func (rb *replayBuilder) elemNode(st *State, tr SeqTree, idx Term, t types.Type) *obsNode {
	if tr.Fields != nil || isStruct(t) {
		st2 := t.Underlying().(*types.Struct)
		n := &obsNode{Kind: "struct", Typ: t}
		for i, f := range tr.Fields {
			c := rb.elemNode(st, f, idx, st2.Field(i).Type())
			if c == nil {
				return nil
			}
			n.Fields = append(n.Fields, c)
		}
		return n
	}
	if tr.isSliceLeaf() {
		return rb.fail("nested slice")
	}
	sel := tSelect(tr.Arr, idx)
	if sel.Sort == SStr {
		return &obsNode{Kind: "string", Typ: t, T: sel}
	}
	if sel.Sort == SRef {
		return rb.fail("reference element")
	}
	return &obsNode{Kind: "scalar", Typ: t, T: sel}
}

func (rb *replayBuilder) phase2(st *State, n *obsNode) {
	switch n.Kind {
	case "string":
		n.Str = make([]byte, n.N)
		for i := 0; i < n.N; i++ {
			i := i
			rb.ask(app(SInt, "str_at", n.T, intLit(int64(i))), func(v string) {
				if b, ok := parseModelInt(v); ok && b.IsInt64() {
					n.Str[i] = byte(b.Int64())
				}
			})
		}
	case "struct":
		for _, f := range n.Fields {
			rb.phase2(st, f)
		}
	case "slice":
		for i := 0; i < n.N; i++ {
			e := rb.elemNode(st, n.Tree, tAdd(n.Off, intLit(int64(i))), n.ElemT)
			if e == nil {
				return
			}
			n.Elems = append(n.Elems, e)
			rb.phase1(e)
		}
	case "ptr":
		rb.phase2(st, n.Ptr)
	}
}

func (rb *replayBuilder) phase3(st *State, n *obsNode) {
	switch n.Kind {
	case "struct":
		for _, f := range n.Fields {
			rb.phase3(st, f)
		}
	case "slice":
		for _, e := range n.Elems {
			rb.phase2(st, e)
		}
	case "ptr":
		rb.phase3(st, n.Ptr)
	}
}

func (rb *replayBuilder) typeStr(t types.Type) string {
	return types.TypeString(t, func(p *types.Package) string {
		if p == rb.pkg {
			return ""
		}
		if rb.imps == nil {
			rb.imps = map[string]string{}
		}
		rb.imps[p.Path()] = p.Name()
		return p.Name()
	})
}

func (rb *replayBuilder) lit(n *obsNode) string {
	switch n.Kind {
	case "scalar":
		if b, ok := n.Typ.Underlying().(*types.Basic); ok && b.Info()&types.IsBoolean != 0 {
			return n.Lit
		}
		return rb.typeStr(n.Typ) + "(" + n.Lit + ")"
	case "string":
		return rb.typeStr(n.Typ) + "(" + strconv.Quote(string(n.Str)) + ")"
	case "struct":
		st2 := n.Typ.Underlying().(*types.Struct)
		var fs []string
		for i, f := range n.Fields {
			if st2.Field(i).Name() == "_" {
				continue
			}
			fs = append(fs, st2.Field(i).Name()+": "+rb.lit(f))
		}
		return rb.typeStr(n.Typ) + "{" + strings.Join(fs, ", ") + "}"
	case "slice":
		var es []string
		for _, e := range n.Elems {
			es = append(es, rb.lit(e))
		}
		return rb.typeStr(n.Typ) + "{" + strings.Join(es, ", ") + "}"
	case "nilptr":
		return "(" + rb.typeStr(n.Typ) + ")(nil)"
	case "ptr":
		pt := n.Typ.Underlying().(*types.Pointer)
		return "func() " + rb.typeStr(n.Typ) + " { v := " + rb.lit(n.Ptr) + "; _ = " + rb.typeStr(pt.Elem()) + "(v); return &v }()"
	}
	return "nil"
}

// stillSat: the instance's query together with the pins and the extra assertions is satisfiable.
func (rb *replayBuilder) stillSat(inst *Instance, tmp string, extra []string) bool {
	text := render(smtText(inst, false), false)
	text = strings.Replace(text, "(get-model)", "", 1)
	text = strings.Replace(text, "(check-sat)", strings.Join(append(append([]string{}, rb.pins...), extra...), "\n")+"\n(check-sat)", 1)
	file := filepath.Join(tmp, fmt.Sprintf("replaysat%d.smt2", time.Now().UnixNano()))
	if err := os.WriteFile(file, []byte(text), 0o644); err != nil {
		return false
	}
	defer os.Remove(file)
	ctx, cancel := context.WithTimeout(context.Background(), 20*time.Second)
	defer cancel()
	out, _ := exec.CommandContext(ctx, "z3-new", "-T:10", file).CombinedOutput()
	return strings.TrimSpace(strings.SplitN(string(out), "\n", 2)[0]) == "sat"
}

// evalTerms asks z3 for the model values of the registered terms in the context of the instance's query.
func (rb *replayBuilder) evalTerms(inst *Instance, tmp string) bool {
	if len(rb.terms) == 0 {
		return true
	}
	text := render(smtText(inst, false), false)
	text = strings.Replace(text, "(get-model)", "", 1)
	if len(rb.pins) > 0 {
		text = strings.Replace(text, "(check-sat)", strings.Join(rb.pins, "\n")+"\n(check-sat)", 1)
	}
	var b strings.Builder
	b.WriteString(text)
	for _, t := range rb.terms {
		fmt.Fprintf(&b, "(get-value (%s))\n", t)
	}
	file := filepath.Join(tmp, fmt.Sprintf("replay%d.smt2", time.Now().UnixNano()))
	if err := os.WriteFile(file, []byte(b.String()), 0o644); err != nil {
		return false
	}
	defer os.Remove(file)
	ctx, cancel := context.WithTimeout(context.Background(), 30*time.Second)
	defer cancel()
	out, _ := exec.CommandContext(ctx, "z3-new", "-T:20", file).CombinedOutput()
	lines := strings.Split(string(out), "\n")
	// the first line is sat; then one "((term value))" answer per get-value (an answer may span lines)
	if len(lines) == 0 || strings.TrimSpace(lines[0]) != "sat" {
		rb.errs = append(rb.errs, "model evaluation: "+truncate(string(out), 200))
		return false
	}
	rest := strings.Join(lines[1:], "\n")
	var answers []string
	depth, start := 0, -1
	inBar := false
	for i := 0; i < len(rest); i++ {
		c := rest[i]
		if inBar {
			if c == '|' {
				inBar = false
			}
			continue
		}
		switch c {
		case '|':
			inBar = true
		case '(':
			if depth == 0 {
				start = i
			}
			depth++
		case ')':
			depth--
			if depth == 0 && start >= 0 {
				answers = append(answers, rest[start:i+1])
				start = -1
			}
		}
	}
	if len(answers) != len(rb.terms) {
		rb.errs = append(rb.errs, fmt.Sprintf("model evaluation returned %d answers for %d terms", len(answers), len(rb.terms)))
		return false
	}
	for i, a := range answers {
		outer, ok := sexprChildren(a)
		if !ok || len(outer) != 1 {
			rb.errs = append(rb.errs, "answer shape "+truncate(a, 80))
			return false
		}
		pair, ok := sexprChildren(outer[0])
		if !ok || len(pair) != 2 {
			rb.errs = append(rb.errs, "answer shape "+truncate(a, 80))
			return false
		}
		rb.sinks[i](pair[1])
		rb.pins = append(rb.pins, fmt.Sprintf("(assert (= %s %s))", pair[0], pair[1]))
	}
	rb.terms, rb.sinks = nil, nil
	return len(rb.errs) == 0
}

func (rb *replayBuilder) evaluate(st *State, inst *Instance, tmp string, nodes []*obsNode) bool {
	for _, n := range nodes {
		rb.phase1(n)
	}
	if !rb.evalTerms(inst, tmp) {
		return false
	}
	for _, n := range nodes {
		rb.phase2(st, n)
	}
	if len(rb.errs) > 0 || !rb.evalTerms(inst, tmp) {
		return false
	}
	for _, n := range nodes {
		rb.phase3(st, n)
	}
	return len(rb.errs) == 0 && rb.evalTerms(inst, tmp)
}

const replayHelpers = `
func gvcDump(v reflect.Value, depth int) string {
	if depth > 8 || !v.IsValid() {
		return "?"
	}
	switch v.Kind() {
	case reflect.Ptr:
		if v.IsNil() {
			return "nil"
		}
		return "&" + gvcDump(v.Elem(), depth+1)
	case reflect.Struct:
		s := "{"
		for i := 0; i < v.NumField(); i++ {
			s += v.Type().Field(i).Name + ":" + gvcDump(v.Field(i), depth+1) + " "
		}
		return s + "}"
	case reflect.Slice, reflect.Array:
		s := "["
		for i := 0; i < v.Len(); i++ {
			s += gvcDump(v.Index(i), depth+1) + " "
		}
		return s + "]"
	case reflect.Bool:
		return fmt.Sprint(v.Bool())
	case reflect.Int, reflect.Int8, reflect.Int16, reflect.Int32, reflect.Int64:
		return fmt.Sprint(v.Int())
	case reflect.Uint, reflect.Uint8, reflect.Uint16, reflect.Uint32, reflect.Uint64, reflect.Uintptr:
		return fmt.Sprint(v.Uint())
	case reflect.String:
		return fmt.Sprintf("%q", v.String())
	case reflect.Interface:
		if v.IsNil() {
			return "nil"
		}
		return gvcDump(v.Elem(), depth+1)
	}
	return "?" + v.Kind().String()
}
`

// buildReplay produces the Go test source for one refuted instance, or "" with reasons.
func buildReplay(o *Obligation, inst *Instance, tmp string) (src string, expectPanic bool, why string) {
	ri := inst.Replay
	if ri == nil {
		return "", false, "no replay information for this kind of obligation"
	}
	fx := ri.fx
	fn := fx.fn
	if fn.Parent() != nil || fx.con == nil || fx.con.Start != "" || fx.con.Stop != "" || strings.Contains(fx.key, "@region:") {
		return "", false, "closures and regions cannot be called from a test"
	}
	if fn.Signature.TypeParams() != nil || fn.Signature.RecvTypeParams() != nil {
		return "", false, "generic function"
	}
	rb := &replayBuilder{pkg: fn.Pkg.Pkg}
	var inputs []*obsNode
	for _, p := range fn.Params {
		v, ok := fx.paramEntry[p.Name()]
		if !ok {
			return "", false, "parameter " + p.Name() + " has no entry value"
		}
		n := rb.collect(fx.entry, v, p.Type(), 0)
		if n == nil {
			return "", false, "input " + p.Name() + ": " + strings.Join(rb.errs, "; ")
		}
		inputs = append(inputs, n)
	}
	var wantRes, wantFin []*obsNode
	finIdx := []int{}
	if ri.kind == "post" {
		res := fn.Signature.Results()
		for i, rv := range ri.results {
			if i >= res.Len() {
				break
			}
			n := rb.collect(ri.st, rv, res.At(i).Type(), 0)
			if n == nil {
				return "", false, "result: " + strings.Join(rb.errs, "; ")
			}
			wantRes = append(wantRes, n)
		}
		for i, p := range fn.Params {
			if pv, ok := fx.paramEntry[p.Name()].(PtrV); ok && pv.Obj != 0 {
				n := rb.collect(ri.st, pv, p.Type(), 0)
				if n == nil {
					return "", false, "final state: " + strings.Join(rb.errs, "; ")
				}
				wantFin = append(wantFin, n)
				finIdx = append(finIdx, i)
			}
		}
	}
	// prefer a small counterexample: bound the lengths of the input slices if the query stays satisfiable
	var lens []Term
	var walk func(n *obsNode)
	walk = func(n *obsNode) {
		switch n.Kind {
		case "slice":
			lens = append(lens, n.Len)
		case "string":
			lens = append(lens, app(SInt, "strlen", n.T))
		case "struct":
			for _, f := range n.Fields {
				walk(f)
			}
		case "ptr":
			walk(n.Ptr)
		}
	}
	for _, n := range inputs {
		walk(n)
	}
	for _, bound := range []int64{3, 8, 32} {
		var as []string
		for _, l := range lens {
			as = append(as, fmt.Sprintf("(assert (<= %s %d))", l.S, bound))
		}
		if len(as) == 0 || rb.stillSat(inst, tmp, as) {
			rb.pins = append(rb.pins, as...)
			break
		}
	}
	// evaluate inputs in the entry state's arrays, results/finals in the final state's
	if !rb.evaluate(fx.entry, inst, tmp, inputs) {
		return "", false, "model evaluation (inputs): " + strings.Join(rb.errs, "; ")
	}
	if ri.kind == "post" {
		if !rb.evaluate(ri.st, inst, tmp, append(append([]*obsNode{}, wantRes...), wantFin...)) {
			return "", false, "model evaluation (outputs): " + strings.Join(rb.errs, "; ")
		}
	}
	var b strings.Builder
	var body strings.Builder
	var args []string
	for i, n := range inputs {
		fmt.Fprintf(&body, "\tvar a%d %s = %s\n", i, rb.typeStr(n.Typ), rb.lit(n))
		args = append(args, fmt.Sprintf("a%d", i))
	}
	call := ""
	if fn.Signature.Recv() != nil {
		call = fmt.Sprintf("a0.%s(%s)", fn.Name(), strings.Join(args[1:], ", "))
	} else {
		call = fmt.Sprintf("%s(%s)", fn.Name(), strings.Join(args, ", "))
	}
	nres := fn.Signature.Results().Len()
	var rs []string
	for i := 0; i < nres; i++ {
		rs = append(rs, fmt.Sprintf("r%d", i))
	}
	if nres > 0 {
		fmt.Fprintf(&body, "\t%s := %s\n", strings.Join(rs, ", "), call)
	} else {
		fmt.Fprintf(&body, "\t%s\n", call)
	}
	for _, r := range rs {
		fmt.Fprintf(&body, "\tgot = append(got, gvcDump(reflect.ValueOf(%s), 0))\n", r)
	}
	for _, i := range finIdx {
		fmt.Fprintf(&body, "\tgotFinal = append(gotFinal, gvcDump(reflect.ValueOf(a%d), 0))\n", i)
	}
	for i, n := range wantRes {
		fmt.Fprintf(&body, "\tvar e%d %s = %s\n\twant = append(want, gvcDump(reflect.ValueOf(e%d), 0))\n", i, rb.typeStr(n.Typ), rb.lit(n), i)
	}
	for i, n := range wantFin {
		fmt.Fprintf(&body, "\tvar f%d %s = %s\n\twantFinal = append(wantFinal, gvcDump(reflect.ValueOf(f%d), 0))\n", i, rb.typeStr(n.Typ), rb.lit(n), i)
	}
	fmt.Fprintf(&b, "package %s\n\nimport (\n\t\"encoding/json\"\n\t\"fmt\"\n\t\"os\"\n\t\"reflect\"\n\t\"testing\"\n", fn.Pkg.Pkg.Name())
	var ips []string
	for p := range rb.imps {
		ips = append(ips, p)
	}
	sort.Strings(ips)
	for _, p := range ips {
		fmt.Fprintf(&b, "\t%q\n", p)
	}
	b.WriteString(")\n")
	b.WriteString(replayHelpers)
	fmt.Fprintf(&b, "\n// counterexample of obligation %s (path %s)\nfunc TestGvcReplay(t *testing.T) {\n", o.Name, inst.Path)
	b.WriteString("\tvar got, want, gotFinal, wantFinal []string\n\tpanicked := \"\"\n")
	b.WriteString("\tdefer func() {\n\t\tif r := recover(); r != nil {\n\t\t\tpanicked = fmt.Sprint(r)\n\t\t}\n")
	b.WriteString("\t\tdata, _ := json.Marshal(map[string]any{\"panic\": panicked, \"got\": got, \"want\": want, \"got_final\": gotFinal, \"want_final\": wantFinal})\n")
	b.WriteString("\t\tos.WriteFile(os.Getenv(\"GVC_REPLAY_OUT\"), data, 0o644)\n\t}()\n")
	b.WriteString(body.String())
	b.WriteString("}\n")
	return b.String(), ri.kind == "safe", ""
}

// runReplay injects the test into the package and runs it on /repo's working tree.
func runReplay(pkgDir, src string) (map[string]any, string) {
	tmp, err := os.MkdirTemp("", "gvc-replay-")
	if err != nil {
		return nil, err.Error()
	}
	defer os.RemoveAll(tmp)
	tf := filepath.Join(tmp, "zz_gvc_replay_test.go")
	os.WriteFile(tf, []byte(src), 0o644)
	ov, _ := json.Marshal(map[string]any{"Replace": map[string]string{filepath.Join(pkgDir, "zz_gvc_replay_test.go"): tf}})
	ovf := filepath.Join(tmp, "overlay.json")
	os.WriteFile(ovf, ov, 0o644)
	out := filepath.Join(tmp, "out.json")
	cmd := exec.Command("go", "test", "-overlay", ovf, "-vet=off", "-count=1", "-timeout", "60s", "-run", "^TestGvcReplay$", ".")
	cmd.Dir = pkgDir
	cmd.Env = append(os.Environ(), "GVC_REPLAY_OUT="+out)
	b, _ := cmd.CombinedOutput()
	data, err := os.ReadFile(out)
	if err != nil {
		return nil, "the replay test produced no result: " + truncate(string(b), 600)
	}
	var res map[string]any
	if err := json.Unmarshal(data, &res); err != nil {
		return nil, err.Error()
	}
	return res, ""
}

func sameStrings(a, b any) bool {
	x, _ := json.Marshal(a)
	y, _ := json.Marshal(b)
	return string(x) == string(y)
}

// replayObligation tries the refuted instances of an obligation until one replays.
func replayObligation(o *Obligation, pkgDir string) (bool, map[string]any) {
	tmp, _ := os.MkdirTemp("", "gvc-replay-smt-")
	defer os.RemoveAll(tmp)
	detail := map[string]any{"replayed": false}
	var reasons []string
	tried := 0
	for _, inst := range o.Instances {
		if inst.Verdict != "sat" || tried >= 3 {
			continue
		}
		tried++
		src, expectPanic, why := buildReplay(o, inst, tmp)
		if src == "" {
			reasons = append(reasons, why)
			continue
		}
		res, errText := runReplay(pkgDir, src)
		if res == nil {
			reasons = append(reasons, errText)
			continue
		}
		panicked, _ := res["panic"].(string)
		ok := false
		how := ""
		if expectPanic {
			ok = panicked != ""
			how = "the real call panics: " + panicked
		} else {
			ok = panicked == "" && sameStrings(res["got"], res["want"]) && sameStrings(res["got_final"], res["want_final"])
			how = "the real call returns and leaves behind exactly what the failing path of the model predicts; the clause is false for these values"
		}
		detail["go_test"] = src
		detail["package_dir"] = pkgDir
		detail["expect_panic"] = expectPanic
		detail["run"] = res
		detail["path"] = inst.Path
		if ok {
			detail["replayed"] = true
			detail["how"] = how
			detail["rerun"] = "./bin/gvc replay <this file>"
			return true, detail
		}
		reasons = append(reasons, "the model's values did not reproduce on the real code (got "+fmt.Sprint(res["got"], res["got_final"])+", model "+fmt.Sprint(res["want"], res["want_final"])+", panic "+strconv.Quote(panicked)+")")
	}
	if tried == 0 {
		reasons = append(reasons, "no instance with a model (the solver answered unknown or timed out)")
	}
	detail["reason"] = strings.Join(reasons, " | ")
	return false, detail
}

var _ = ssa.NaiveForm
