#!/usr/bin/env python3
# Generates MANIFEST.json from the table below (kept in one place so claims and N/A stay consistent).
import json, subprocess
ENV = ". /verif/env.sh; "
claimed = {
 "C17": dict(
   text="Deductive proof: every method of LongBitmask (and, as they are added, ConnectedBitmask/ShortBitmask) carries a whole-view functional contract against the integer-set model (word function W / run-list membership); gvc generates verification conditions from the SSA of the real methods on every run (loops cut at invariants, calls by contract, recursion with a variant, no-panic sweep) and z3/cvc5 discharge every obligation for all inputs and all iteration counts. Operation sequences follow by induction because every contract is stated over the whole view and preserves the representation invariant. ConnectedBitmask: canonical form (sorted, disjoint, non-adjacent runs) is proved for every operation; set meaning is proved for Set/Unset/Flip/IsSet/Len/IsZero/Copy/Equal/Inject/Extract and for the loops of OrCopy (coverage invariants). ShortBitmask (a linked list), the membership meaning of And/Xor/Sub/Or results and the agreement of the three representations are covered by a bounded stand-in (operation sequences against a set model, labelled bounded, not counted as proved).",
   note="Trusted: go/ssa NaiveForm translation, gvc's memory model (slices own their backing arrays; append yields a fresh array), math/bits contracts (assumed, listed in evidence), allocations succeed (len <= 2^48), the SMT solvers. Bit-level meaning of the word formulas is proved as separate pure bit-vector lemmas.",
   tech="contract-based deductive verification: own VC generator over go/ssa + z3/cvc5",
   ref="DESIGN.md section 4 (C17)"),
 "C01": dict(
   text="Deductive proof of the writer-side host table (hostGroup.add/pop/popN: index of the added host, earlier entries unchanged, table length a multiple of the address size, undo removes whole hosts) with contracts on the real methods; and of the four comparators that order the lookup tables (the first-packet-source order by file name, then import offset plus packet index, in bit-vector arithmetic). BOUNDED (stand-in, not counted as proved): the rest of the format and the whole reader - streams written with the real Writer and read back with the real Reader (roundtrip stand-in). Known finding: packet times after a silence of 2^32 microseconds inside one stream.",
   note="Trusted: go/ssa translation, gvc memory model, bytes.Equal contract (assumed: equal iff same length and bytes), SMT solvers. Reader side, payload/segmentation encoding and lookup sections are only covered by the bounded stand-in.",
   tech="contract-based deductive verification: own VC generator over go/ssa + z3/cvc5",
   ref="DESIGN.md section 4 (C01)"),
 "C07": dict(
   text="Deductive proof of the reference-time re-basing that makes merged and re-based index files keep every stream's absolute first/last packet time: region contracts on the real code of Writer.AddIndex (from the computation of the new reference second to the return) and Writer.AddStream (the re-basing step), with loop invariants over all streams and 64-bit wrap-around arithmetic as bit-vectors; the same shift is applied to first and last packet time, old streams are shifted by (old reference - new reference), copied streams by (reader reference - new reference), and the new reference second never exceeds the old one. The undo of remapped hosts relies on the host-table contracts proved under C01. The manager's splice of merged files is proved (order of the index list). BOUNDED (stand-in, not counted as proved): merging as a whole - groups of index files with newer versions of some streams are merged and must return the newest version of every stream exactly as written (merge-roundtrip stand-in).",
   note="Assumed: contracts of package time on whole seconds (time.Unix, Time.Add, Time.Unix, Time.Sub, Duration.Nanoseconds: listed in the evidence as assumed), region assumptions (facts established by the code before the region, e.g. streamCountBefore <= len(streams)), run-time checks inside the two large functions are assumed to pass (nosafety). Search-result equality and file I/O are not covered.",
   tech="contract-based deductive verification: region contracts + loop invariants, own VC generator over go/ssa + z3/cvc5",
   ref="DESIGN.md section 4 (C07)"),
 "C03": dict(
   text="Deductive proof, for every stream valuation (atoms are interpreted through uninterpreted functions for tag state and variable values), that negation of the atoms under contract is exact: TagCondition.invert accepts exactly the complementary tag states, HostCondition.invert flips the match and keeps address and masks, NumberCondition.invert satisfies (Number' + sum) >= 0 iff not (Number + sum) >= 0 over the integers (recursive sum as a spec function with induction lemmas, multiplication uninterpreted with the ring law used), the impossible condition negates to 'no condition', and the negation of the empty conjunction (always true) is the impossible condition rather than 'no condition'; plus the rule-site assertion that the number simplification divides the constant exactly (the common factor it divides by also divides the constant). Translation of host masks: for every /n suffix the IPv4 and IPv6 masks are flipped in exactly the first n (n > 0) or last -n (n < 0; IPv4 only when -n <= 32) bit positions - loop invariants over all 32 / 128 bit positions in bit-vector arithmetic, and for a single suffix the final masks equal that specification. Frames: the sequence operator then() and the set union Or() never write their operands' element lists (append is modelled with both outcomes, in place and fresh), and Or() returns exactly the conjunctions of both operands in order. The other clean* rewrites, And(), time/flag/data atoms and the translation from text are not under contract yet and are not decided by this check.",
   note="Assumed: |Number| and factors below 2^62 (no wrap-around on negation), tag state is one of four values; nmul law nmul(-a,b) = -nmul(a,b) (a true law of multiplication, listed as axiom). Partial claim: see functions_under_contract in the evidence.",
   tech="contract-based deductive verification: semantic spec functions + induction lemmas, own VC generator over go/ssa + z3/cvc5",
   ref="DESIGN.md section 4 (C03)"),
 "C02": dict(
   cat="other",
   text="Two parts, kept apart in the evidence. PROVED (deductive, all inputs): the shadowing filter that buildSearchObjects installs keeps a stream exactly when no newer index file of the stack contains its id (loop invariant over the newer files, map membership through heap functions of the reader objects), it reports no error and changes nothing. BOUNDED (stand-in, not counted as proved): the pipeline as a whole - parser, normal form, per-index compilation into filters and lookups, the scan strategies, the sorted limit-bounded accumulator and paging - is not within reach of function-by-function contracts (closures over a dozen captured variables, maps of closures, file I/O); it is run on generated populations spread over stacks of 1-3 index files with shadowed versions and compared with a direct evaluation of generated queries on the visible streams: ids, each once, newest version, order by the sort keys, page and more-flag.",
   note="The claim 'for every population, stack, query, sort, limit and page' is NOT proved; only the shadowing filter is. The stand-in's bound is stated in the evidence (assumptions_or_bounds) and leaves out THEN sequences, sub-queries, variables, tags, converters and grouping. Assumed for the proved part: superseding readers and the stream are non-nil (call sites pass readers of the stack).",
   tech="contract-based deductive verification for the shadowing filter (own VC generator over go/ssa + z3/cvc5); bounded differential stand-in for the pipeline",
   ref="DESIGN.md section 4 (C02)"),
 "C11": dict(
   text="Deductive proof that the handlers the service goroutine runs for tag management keep the tag graph well-formed, for every state of the tag table (a map of names to tag objects on a symbolic heap: one SMT array per field, indexed by object reference): AddTag's handler, DelTag's handler and two regions of UpdateTag's handler (installing a new definition; renaming) each establish wfE (every entry is a tag object with a reference set, no tag names itself, every referenced name exists, different names are different objects) and mirror (n is in r's referencedBy set exactly when tag n exists and its definition names r) from wfE and mirror, with loop invariants for the existence check, the old/new reference difference sets and the range-over-map loops (ghost set of visited keys). DelTag rejects a referenced tag before anything is touched (ghost call log). Safety: no nil dereference or nil-map write in these handlers. BOUNDED (stand-in, not counted as proved): the API as a whole through a real Manager - validation outside the handlers, acyclicity (the cycle check itself is trusted in the proof), atomicity of rejected calls, mark updates, never hanging - is run on seeded call sequences against a plain model.",
   note="Assumed (listed in the evidence): referencedTags returns exactly the distinct names its receiver's definition references; event, saveState, makeTagInfo, startTaggingJobIfNeeded, detachConverterFromTag, tagReferencesTransitively do not touch the tag table or the referencedBy sets (trusted contracts, bodies not verified); a tag object's features are never written after creation; the new tag object passed to a handler is not yet in the table; region assumptions of the UpdateTag regions (graph well-formed where the region starts - established by the other handlers); single-goroutine confinement of the manager state. Converter attach/detach, mark updates and the uncertainty walk are not under contract.",
   tech="contract-based deductive verification: handler-preserves-invariant contracts over a symbolic heap (own VC generator over go/ssa + z3/cvc5); bounded model-based stand-in for the API",
   ref="DESIGN.md section 4 (C11)"),
 "C04": dict(
   cat="other",
   text="PROVED (deductive, all inputs): the shortcut scan progressVariant.find - for every buffer pair, direction, offset, prefix, suffix and length facts: every slice expression stays inside the stored payload (prefix skip, suffix cut, fixed-size window), the window loop terminates, the direction's offset only moves forward and stays inside the payload, the other direction's offset is untouched, and whenever a match is reported the searched window starts exactly at the offset the function leaves behind (the caller adds the match end to it; a missed offset update is what makes later sequence elements see old data). BOUNDED (stand-in, not counted as proved): that payload filters agree with a plain left-to-right regular-expression scan, alone, negated, combined and chained with THEN across chunk boundaries and directions (payload-oracle).",
   note="Assumed: bytes.Index/LastIndex return -1 or a fitting position; the regex engine is a pure function; a constant suffix is not longer than the minimal match length (C18's subject). Sequence progress (makeDataConditionFilter), expression sharing, variables and converter data sources are not under contract; the claim 'for every expression and payload' is only bounded.",
   tech="contract-based deductive verification of the scan's window arithmetic (own VC generator over go/ssa + z3/cvc5); bounded differential stand-in against Go's regexp",
   ref="DESIGN.md section 4 (C04)"),
 "C06": dict(
   cat="other",
   text="Sequential kernel only; the property's quantifier over interleavings of job completions with API calls is NOT decided (no schedule model in this family). PROVED (deductive, for every tag table and every bit): (1) the per-tag invalidation rule of invalidateTags at the point where the updated tag object is stored - sub-query features make every stream undecided; otherwise the undecided set keeps its members and gains the added and the reset streams, and the updated streams too when the definition uses payload or time filters (feature bits as bit-vectors); definition and match set are carried over; (2) the completion handler of a tagging job re-applies invalidateTags whenever any of the three 'arrived during the job' masks is non-empty and the result is published (ghost call log). BOUNDED (stand-in, not counted as proved): searches with tag filters over partly undecided tags agree with reading decided streams from the match set and undecided ones from the definition (tag-search stand-in).",
   note="Assumed: LongBitmask.Copy/Or/IsZero contracts at set level (proved in word form under C17; the bridge is an assumed extern contract); converter Name is pure; single-goroutine confinement. Not under contract: inheritTagUncertainty (its termination needs acyclicity, see C11), import/converter completion handlers, mark updates, the prefetch of tags for views. Known defect documented but without an obligation: a tagging job that completes after a referenced tag was edited publishes a decided, stale dependent tag (DESIGN 7, F-C06-1).",
   tech="contract-based deductive verification: rule-site assertions and ghost call logs (own VC generator over go/ssa + z3/cvc5); bounded differential stand-in for tag searches",
   ref="DESIGN.md section 4 (C06)"),
 "C10": dict(
   text="Deductive proof of the sequential kernel of a view: (1) the per-stream callback of View.AllStreams invokes the handler for a stored version exactly when no newer index file of the view contains that stream id (loop invariant + ghost log of handler calls), so every visible id is enumerated once, in its newest version; (2) View.Stream returns the version from the newest index containing the id, or nothing if none contains it; (3) replacing a merged run keeps every index before and after the run in order (including files appended while the merge ran); (4) lock/release change nothing but the reference-count table. BOUNDED (stand-in, not counted as proved): stability of a view over its lifetime while imports, tag edits and mark changes continue (view-stability stand-in: live views are asked again after every manager call of generated histories). Completeness with respect to 'reported processed' and the hand-off of references across goroutines are not decided.",
   note="Assumed: the index package's readers (StreamIDs, StreamByID, Stream.ID) relate to the abstract predicate contains(index, id) as stated in their assumed contracts; single-goroutine confinement of manager state (C20's subject); Close/Remove do not touch manager state; run-time checks in View.Stream and the merge completion closure are assumed to pass (nosafety).",
   tech="contract-based deductive verification: handler-preserves-invariant contracts on closures, ghost call logs, own VC generator over go/ssa + z3/cvc5",
   ref="DESIGN.md section 4 (C10)"),
 "C14": dict(
   text="Deductive proof of totality facts on the real parser code: the value and term capture functions and the host-mask parser are free of index/slice panics for every token text the grammar can hand them (all inputs, with the token shapes as preconditions) and their loops terminate; every loop of the number-filter and flag-filter simplification (cleanNumberConditions, cleanFlagConditions, including the common-factor search and the 16-bit mask enumerations) terminates, proved with a variant per loop; the sort comparator of tag conditions equals a spec function that is proved to be a strict total order, so the normal form of tag conditions does not depend on map iteration order. The host mask parser is also proved functionally (see C03). Functions of the parser not listed under functions_under_contract in the evidence are not decided by this check; promptness is a complexity claim and is not decided.",
   note="Assumed: participle's lexer/parser is total and delivers tokens matching its patterns (token shapes are preconditions); strings.HasPrefix/HasSuffix/strconv.ParseInt contracts; in the two large simplification functions run-time checks are assumed to pass (nosafety) and each loop is verified from its invariant alone; loop 3 of cleanNumberConditions assumes no factor equals MinInt64.",
   tech="contract-based deductive verification: no-panic sweep + loop variants, own VC generator over go/ssa + z3/cvc5",
   ref="DESIGN.md section 4 (C14)"),
 "C15": dict(
   text="Deductive proof of the invalidation bookkeeping (after a record is dropped from the table the start of the free area is not behind the start of that record, so compaction never starts parsing inside a record) and of the varint codec on the real functions: writeVarInt emits exactly the base-128 encoding of its argument (1..10 bytes, proved by complete unrolling with the unwinding obligation), readVarInt returns the value decoded from the bytes it consumed, stops at the first byte without continuation bit, reports the consumed length and fails only when the underlying reader fails (ghost log of ReadByte results); ten round-trip lemmas (one per encoded length) prove decode(encode(x)) = x as bit-vector facts over the two contracts. The cache file as a whole (varbytes/strings, records, accounting, compaction, invalidation, reopen, torn tail) is not within the verifier's reach yet; a bounded stand-in (labelled bounded, not counted as proved) drives real cache files through operation sequences against a map model.",
   note="Assumed: io.ByteReader/io.Writer are modelled by ghost logs of their results; binary.Write writes the slice it is given. The stand-in is bounded (sequence length, ids, chunk lists stated in the evidence). Known findings: invalidation is not durable across reopen; empty chunks are not representable.",
   tech="contract-based deductive verification (own VC generator + z3/cvc5) for the codec; bounded stand-in for the file-level behaviour",
   ref="DESIGN.md section 4 (C15)"),
 "C18": dict(
   text="Deductive proof of the arithmetic and combination steps of the analysis on the real closures: the saturating add and increment are exact (bit-vector proof), the alternation step takes min of minima / max of maxima before adding (rule-site assertions), the suffix merge computes the longest common suffix of the two branch suffixes (loop invariant + assertion), and both walks are free of index panics for every well-formed program. The soundness of the memoised walk as a whole is not a theorem about arbitrary instruction graphs; for it a bounded stand-in (labelled bounded in the evidence, not counted as proved) compares AcceptedLength/ConstantSuffix with brute-force matching over a regex grammar.",
   note="Assumed: syntax.Compile emits programs whose Out/Arg indices are in range (wfprog); termination of the walks is not proved. The stand-in is bounded (expression depth and word length stated in the evidence).",
   tech="contract-based deductive verification (own VC generator + z3/cvc5); bounded stand-in for the whole walk",
   ref="DESIGN.md section 4 (C18)"),
}
na = {
 "C01": "contracts not yet written in this round (planned: host table, section layout, varints) — see DESIGN 4",
 "C02": "contracts not yet written in this round (planned: result accumulator) — see DESIGN 4",
 "C03": "contracts not yet written in this round (planned: invert/operators/rule sites) — see DESIGN 4",
 "C05": "the claim is about what gopacket's TCP reassembly/IP defragmentation deliver for every segmentation and reordering; that behaviour lives in an external library without a contract, so no function in /repo has a postcondition that can say 'what the endpoints exchanged'",
 "C06": "the property quantifies over interleavings of job completions with API calls (no schedule model in this family); its sequential kernel (invalidation handlers over map[string]*tag) needs range-over-map and aliased heap writes, which the VC generator does not support; no contract written. F-C06-1 is documented in DESIGN 7",
 "C07": "contracts not yet written in this round — see DESIGN 4",
 "C08": "a relation between whole runs of the importer over different batchings (plus external reassembly and snapshots); relational whole-history claims are outside per-function contracts",
 "C09": "liveness (eventual quiescence under every delivery order); contracts prove safety and per-loop termination only",
 "C10": "contracts not yet written in this round (enumeration kernel only) — see DESIGN 4",
 "C11": "the tag handlers are closures over map[string]*tag with range-over-map fixed-point walks; the VC generator supports neither iteration over maps nor sound aliasing for writes through two heap references, so no contract could be brought to a proof. F-C11-1..3 are documented in DESIGN 7",
 "C12": "quantifies over crash points inside file-system operations; a function contract has no model of partial writes, rename ordering or process death (the one torn-write claim that is a function contract is handled under C15)",
 "C13": "pairing of lock/release across goroutine hand-offs and job completion order; no thread or schedule model in this family",
 "C14": "contracts not yet written in this round — see DESIGN 4",
 "C15": "contracts not yet written in this round — see DESIGN 4",
 "C16": "converter process lifecycle, re-queueing and job completion order; external processes and schedules are outside function contracts",
 "C18": "contracts not yet written in this round — see DESIGN 4",
 "C19": "the guard is filepath.Base plus os.OpenFile(O_EXCL) behind chi's routing and URL decoding; any contract for those would restate the property as an assumption",
 "C20": "data races; this family has no thread model",
}
for k in claimed: na.pop(k, None)
hooks = subprocess.run("git -C /repo log --format=%H --grep='^verif hook' ", shell=True, capture_output=True, text=True).stdout.split()
m = {
 "version": 1,
 "setup_cmd": "./setup.sh",
 "hooks": {
   "guard": "verif",
   "enable": "go build tag `verif` (checks load /repo with -tags=verif); the hook commits only add comment-only files *_contracts_verif.go that hold the //@ contracts",
   "baseline_off_cmd": "cd /repo && " + ENV + "go test -vet=off -count=1 ./internal/... ./cmd/...",
   "source_commits": hooks,
   "add_only": True,
 },
 "engines": [{"name": "gvc", "path": "/verif/gvc", "serves_properties": sorted(claimed), "kind_free_text": "verification-condition generator for Go (go/ssa NaiveForm, symbolic execution with loop invariants and modular calls) discharging obligations with z3 4.8.12 / z3 5.1.0 / cvc5 1.0.3"}],
 "checks": [],
 "not_applicable": [{"property_id": k, "reason": v} for k, v in sorted(na.items())],
 "notes": "Contracts live in /repo as comment-only files under build tag verif; /verif/known-findings.txt lists genuine defects (finding:/fixed:); /verif/baseline/<id>.txt pins the functional obligation names of the unchanged tree for drift detection.",
}
for k, c in sorted(claimed.items()):
    m["checks"].append({
      "property_id": k,
      "quick_cmd": f"./check {k} quick",
      "thorough_cmd": f"./check {k} thorough",
      "evidence_file": f"/verif/evidence/{k}.json",
      "replay_cmd_template": "./bin/gvc replay {path}",
      "engine": "gvc",
      "level_claimed": {"category": c.get("cat", "proof"), "text": c["text"], "design_ref": c["ref"]},
      "level_note": c["note"],
      "technique": c["tech"],
    })
json.dump(m, open('/verif/MANIFEST.json', 'w'), indent=1)
print("claimed", sorted(claimed), "n/a", sorted(na))
