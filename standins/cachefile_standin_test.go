package converters

// Bounded stand-in for C15 (labelled bounded, never counted as proved): the cache file as a
// whole (record encoding, load-time scan, compaction, invalidation) is driven through operation
// sequences and compared with a plain map model. Injected with `go test -overlay`.

import (
	"encoding/json"
	"fmt"
	"math/rand"
	"os"
	"path/filepath"
	"strconv"
	"testing"
	"time"

	"github.com/spq/pkappa2/internal/index"
	"github.com/spq/pkappa2/internal/tools/bitmask"
)

var c15t0 = time.Date(2025, 1, 1, 0, 0, 0, 0, time.UTC)

func c15variants() [][]index.Data {
	us := time.Microsecond
	return [][]index.Data{
		{{Direction: index.DirectionClientToServer, Content: []byte("a"), Time: c15t0}},
		{{Direction: index.DirectionClientToServer, Content: []byte("ab"), Time: c15t0.Add(1 * us)},
			{Direction: index.DirectionClientToServer, Content: []byte("c"), Time: c15t0.Add(1 * us)},
			{Direction: index.DirectionServerToClient, Content: []byte("xyz"), Time: c15t0.Add(70000 * us), ContentType: "t/x"}},
		{{Direction: index.DirectionServerToClient, Content: []byte("q"), Time: c15t0.Add(3 * us), ContentType: "s"},
			{Direction: index.DirectionClientToServer, Content: make([]byte, 200), Time: c15t0.Add(4 * us)}},
		// time goes backwards between chunks (negative delta, 10 byte varint)
		{{Direction: index.DirectionClientToServer, Content: []byte("late"), Time: c15t0.Add(5 * us)},
			{Direction: index.DirectionServerToClient, Content: []byte("early"), Time: c15t0.Add(2 * us)}},
	}
}

type c15op struct {
	Kind string `json:"op"` // set inv reset reopen
	ID   uint64 `json:"id,omitempty"`
	Var  int    `json:"variant,omitempty"`
}

func c15ops() []c15op {
	var ops []c15op
	for id := uint64(1); id <= 3; id++ {
		for v := range c15variants() {
			ops = append(ops, c15op{"set", id, v})
		}
		ops = append(ops, c15op{"inv", id, 0})
	}
	ops = append(ops, c15op{Kind: "reset"}, c15op{Kind: "reopen"})
	return ops
}

type c15failure struct {
	Class  string  `json:"class"`
	Input  string  `json:"input"`
	Detail string  `json:"detail"`
	Seq    []c15op `json:"sequence"`
}

func c15equal(a, b []index.Data) string {
	if len(a) != len(b) {
		return fmt.Sprintf("chunk count %d != %d", len(a), len(b))
	}
	for i := range a {
		if a[i].Direction != b[i].Direction {
			return fmt.Sprintf("chunk %d direction", i)
		}
		if string(a[i].Content) != string(b[i].Content) {
			return fmt.Sprintf("chunk %d content %q != %q", i, a[i].Content, b[i].Content)
		}
		if !a[i].Time.Equal(b[i].Time) {
			return fmt.Sprintf("chunk %d time %v != %v", i, a[i].Time.Sub(c15t0), b[i].Time.Sub(c15t0))
		}
		if a[i].ContentType != b[i].ContentType {
			return fmt.Sprintf("chunk %d content type %q != %q", i, a[i].ContentType, b[i].ContentType)
		}
	}
	return ""
}

// runs one sequence; returns a failure or nil
func c15run(dir string, seq []c15op, n int) *c15failure {
	path := filepath.Join(dir, fmt.Sprintf("c%d.cache", n))
	defer os.Remove(path)
	cf, err := NewCacheFile(path)
	if err != nil {
		return &c15failure{Class: "open", Detail: err.Error(), Seq: seq}
	}
	defer func() { cf.Close() }()
	vars := c15variants()
	model := map[uint64][]index.Data{}
	invalidated := map[uint64]bool{} // invalidated and not stored again since
	staleRisk := map[uint64]bool{}   // ... and the file was reopened afterwards
	check := func(step int) *c15failure {
		for id := uint64(1); id <= 3; id++ {
			want, has := model[id]
			if cf.Contains(id) != has {
				cl := "contains"
				if !has && staleRisk[id] {
					cl = "stale-after-reopen"
				}
				return &c15failure{Class: cl, Detail: fmt.Sprintf("step %d: Contains(%d)=%v, model %v", step, id, !has, has), Seq: seq}
			}
			if !has {
				continue
			}
			got, cb, sb, err := cf.data(id, c15t0)
			if err != nil {
				return &c15failure{Class: "read-error", Detail: fmt.Sprintf("step %d: data(%d): %v", step, id, err), Seq: seq}
			}
			if d := c15equal(got, want); d != "" {
				return &c15failure{Class: "roundtrip", Detail: fmt.Sprintf("step %d: stream %d: %s", step, id, d), Seq: seq}
			}
			var wc, ws uint64
			for _, c := range want {
				if c.Direction == index.DirectionClientToServer {
					wc += uint64(len(c.Content))
				} else {
					ws += uint64(len(c.Content))
				}
			}
			if cb != wc || sb != ws {
				return &c15failure{Class: "byte-counts", Detail: fmt.Sprintf("step %d: stream %d: bytes %d/%d want %d/%d", step, id, cb, sb, wc, ws), Seq: seq}
			}
		}
		return nil
	}
	for i, op := range seq {
		switch op.Kind {
		case "set":
			if err := cf.setData(op.ID, c15t0, vars[op.Var]); err != nil {
				return &c15failure{Class: "store-error", Detail: fmt.Sprintf("step %d: %v", i, err), Seq: seq}
			}
			model[op.ID] = vars[op.Var]
			delete(invalidated, op.ID)
			delete(staleRisk, op.ID)
		case "inv":
			bm := bitmask.LongBitmask{}
			bm.Set(uint(op.ID))
			res := cf.InvalidateChangedStreams(&bm)
			if _, has := model[op.ID]; res.IsSet(uint(op.ID)) != has {
				return &c15failure{Class: "invalidate-result", Detail: fmt.Sprintf("step %d: invalidate(%d) reported %v, stored %v", i, op.ID, res.IsSet(uint(op.ID)), has), Seq: seq}
			}
			if _, has := model[op.ID]; has {
				invalidated[op.ID] = true
			}
			delete(model, op.ID)
		case "reset":
			if err := cf.Reset(); err != nil {
				return &c15failure{Class: "reset-error", Detail: err.Error(), Seq: seq}
			}
			model = map[uint64][]index.Data{}
			invalidated = map[uint64]bool{}
			staleRisk = map[uint64]bool{}
		case "reopen":
			cf.Close()
			cf, err = NewCacheFile(path)
			if err != nil {
				return &c15failure{Class: "reopen-error", Detail: fmt.Sprintf("step %d: %v", i, err), Seq: seq}
			}
			for id := range invalidated {
				staleRisk[id] = true
			}
		}
		if f := check(i); f != nil {
			return f
		}
	}
	return nil
}

func TestC15Standin(t *testing.T) {
	maxLen, _ := strconv.Atoi(os.Getenv("C15_LEN"))
	if maxLen == 0 {
		maxLen = 3
	}
	nRandom, _ := strconv.Atoi(os.Getenv("C15_RANDOM"))
	if nRandom == 0 {
		nRandom = 3000
	}
	seed, _ := strconv.ParseInt(os.Getenv("STANDIN_SEED"), 10, 64)
	dir := t.TempDir()
	ops := c15ops()
	var failures []c15failure
	classes := map[string]bool{}
	evals, nontrivial := 0, 0
	var samples [][]c15op
	record := func(f *c15failure) {
		if f == nil {
			return
		}
		b, _ := json.Marshal(f.Seq)
		f.Input = string(b)
		if !classes[f.Class] || len(failures) < 40 {
			failures = append(failures, *f)
		}
		classes[f.Class] = true
	}
	// exhaustive part
	var rec func(seq []c15op)
	rec = func(seq []c15op) {
		if len(seq) > 0 {
			evals++
			if len(seq) >= 2 {
				nontrivial++
			}
			record(c15run(dir, seq, evals))
		}
		if len(seq) == maxLen {
			return
		}
		for _, op := range ops {
			rec(append(append([]c15op(nil), seq...), op))
		}
	}
	rec(nil)
	// random longer sequences
	rng := rand.New(rand.NewSource(seed + 12345))
	for i := 0; i < nRandom; i++ {
		n := maxLen + 1 + rng.Intn(5)
		seq := make([]c15op, n)
		for j := range seq {
			seq[j] = ops[rng.Intn(len(ops))]
		}
		evals++
		nontrivial++
		if len(samples) < 3 {
			samples = append(samples, seq)
		}
		record(c15run(dir, seq, evals))
	}
	// torn tail: every cut inside the last record of a three-record file
	{
		path := filepath.Join(dir, "torn.cache")
		cf, err := NewCacheFile(path)
		if err == nil {
			vars := c15variants()
			cf.setData(1, c15t0, vars[0])
			cf.setData(2, c15t0, vars[1])
			st, _ := os.Stat(path)
			twoRecords := st.Size()
			cf.setData(3, c15t0, vars[2])
			cf.Close()
			full, _ := os.ReadFile(path)
			refused := 0
			wrong := 0
			afterTorn := 0
			for cut := twoRecords + 1; cut < int64(len(full)); cut++ {
				p2 := filepath.Join(dir, "torncut.cache")
				os.WriteFile(p2, full[:cut], 0o644)
				evals++
				nontrivial++
				c2, err := NewCacheFile(p2)
				if err != nil {
					refused++
					continue
				}
				for id, v := range map[uint64]int{1: 0, 2: 1} {
					got, _, _, err := c2.data(id, c15t0)
					if err != nil || c15equal(got, vars[v]) != "" {
						wrong++
					}
				}
				// the file must be usable after such an open: a new record is stored and read back, in
				// this session and after another reopen, and the old records stay readable
				if cut%7 == 0 {
					nv := 3 % len(vars)
					if err := c2.setData(4, c15t0, vars[nv]); err != nil {
						afterTorn++
					} else {
						for id, v := range map[uint64]int{1: 0, 2: 1, 4: nv} {
							got, _, _, err := c2.data(id, c15t0)
							if err != nil || c15equal(got, vars[v]) != "" {
								afterTorn++
							}
						}
						c2.Close()
						if c3, err := NewCacheFile(p2); err != nil {
							afterTorn++
						} else {
							for id, v := range map[uint64]int{1: 0, 2: 1, 4: nv} {
								got, _, _, err := c3.data(id, c15t0)
								if err != nil || c15equal(got, vars[v]) != "" {
									afterTorn++
								}
							}
							c3.Close()
						}
						continue
					}
				}
				c2.Close()
			}
			if afterTorn > 0 {
				failures = append(failures, c15failure{Class: "store-after-torn-tail", Input: "3-record file cut inside the last record, opened, record 4 stored", Detail: fmt.Sprintf("%d reads wrong or failing after storing into a file that was opened with a torn tail", afterTorn)})
			}
			if refused > 0 {
				failures = append(failures, c15failure{Class: "torn-tail-refuses-open", Input: fmt.Sprintf("3-record file cut inside the last record (%d cut points)", int64(len(full))-twoRecords-1), Detail: fmt.Sprintf("%d cut points make NewCacheFile fail", refused)})
			}
			if wrong > 0 {
				failures = append(failures, c15failure{Class: "torn-tail-wrong-data", Input: "3-record file cut inside the last record", Detail: fmt.Sprintf("%d complete records unreadable or wrong", wrong)})
			}
		}
	}
	// torn file header: a file that holds only a part of its 8 byte header (the service was killed while the file
	// was created) opens as an empty cache and can be used
	{
		full, err := os.ReadFile(func() string {
			p := filepath.Join(dir, "hdr.cache")
			if cf, err := NewCacheFile(p); err == nil {
				cf.file.Close()
			}
			return p
		}())
		refused := 0
		if err == nil && len(full) >= 8 {
			for cut := 1; cut < 8; cut++ {
				p2 := filepath.Join(dir, fmt.Sprintf("hdrcut%d.cache", cut))
				os.WriteFile(p2, full[:cut], 0o644)
				evals++
				cf, err := NewCacheFile(p2)
				if err != nil {
					refused++
					continue
				}
				if len(cf.streamInfos) != 0 {
					refused++
				}
				cf.file.Close()
			}
		}
		if refused > 0 {
			failures = append(failures, c15failure{Class: "torn-header-refuses-open", Input: "a cache file cut inside its 8 byte header (7 cut points)", Detail: fmt.Sprintf("%d cut points make NewCacheFile fail or load records", refused)})
		}
	}
	// inputs outside the type invariant of a chunk list (known findings when they fail)
	{
		bad := map[string][]index.Data{
			"empty-chunk": {{Direction: index.DirectionClientToServer, Content: []byte("a"), Time: c15t0}, {Direction: index.DirectionClientToServer, Content: []byte{}, Time: c15t0}, {Direction: index.DirectionServerToClient, Content: []byte("b"), Time: c15t0}},
			"sub-microsecond": {{Direction: index.DirectionClientToServer, Content: []byte("a"), Time: c15t0.Add(600 * time.Nanosecond)}, {Direction: index.DirectionServerToClient, Content: []byte("b"), Time: c15t0.Add(1200 * time.Nanosecond)}},
		}
		for cl, chunks := range bad {
			path := filepath.Join(dir, cl+".cache")
			cf, err := NewCacheFile(path)
			if err != nil {
				continue
			}
			evals++
			nontrivial++
			cf.setData(1, c15t0, chunks)
			got, _, _, err := cf.data(1, c15t0)
			want := append([]index.Data(nil), chunks...)
			for i := range want {
				want[i].Time = want[i].Time.Truncate(time.Microsecond)
			}
			if err != nil {
				failures = append(failures, c15failure{Class: cl, Input: cl, Detail: "read fails: " + err.Error()})
			} else if d := c15equal(got, want); d != "" {
				failures = append(failures, c15failure{Class: cl, Input: cl, Detail: d})
			}
			cf.Close()
		}
	}
	out := map[string]any{"evaluations": evals, "nontrivial": nontrivial, "samples": samples, "failures": failures, "max_exhaustive_len": maxLen, "random_sequences": nRandom, "ops": len(ops)}
	if p := os.Getenv("C15_OUT"); p != "" {
		data, _ := json.MarshalIndent(out, "", " ")
		os.WriteFile(p, data, 0o644)
	}
	for i, f := range failures {
		if i < 12 {
			t.Log(f.Class, f.Detail, f.Input)
		}
	}
	t.Logf("evaluations=%d failures=%d", evals, len(failures))
}
