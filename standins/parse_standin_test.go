package query

// Bounded stand-in for C14 (labelled bounded, never counted as proved): the parser as a whole. Generated
// query texts - well-formed ones from the grammar, and the same texts damaged by small edits - must make
// Parse return (a query or an error) without panicking and without running away, and parsing the same text
// twice must give the same normal form. Only the value/term/mask capture functions and the loops of two
// simplification functions are under contract; participle, the other capture functions, the translation
// into conditions and Clean() are exercised here. Injected with `go test -overlay`.

import (
	"encoding/json"
	"fmt"
	"math/rand"
	"os"
	"strconv"
	"strings"
	"testing"
	"time"
)

func c14Value(rng *rand.Rand, kind string) string {
	nums := []string{"0", "1", "80", "443", "65535", "65536", "4294967296", "18446744073709551615", "-1", "007", "1e3", ""}
	vars := []string{"@id@", "@cport@", "@sport@", "@cbytes@", "@sbytes@", "@a:id@", "@a:cport@", "@b:sbytes@", "@ftime@", "@a:ltime@"}
	switch kind {
	case "num":
		term := func() string {
			if rng.Intn(3) == 0 {
				return vars[rng.Intn(8)]
			}
			return nums[rng.Intn(len(nums))]
		}
		expr := func() string {
			s := term()
			for k := rng.Intn(4); k > 0; k-- {
				s += []string{"+", "-", "+-", "--"}[rng.Intn(4)] + term()
			}
			return s
		}
		var parts []string
		for k := 1 + rng.Intn(3); k > 0; k-- {
			switch rng.Intn(4) {
			case 0:
				parts = append(parts, expr())
			case 1:
				parts = append(parts, expr()+":")
			case 2:
				parts = append(parts, ":"+expr())
			default:
				parts = append(parts, expr()+":"+expr())
			}
		}
		return strings.Join(parts, ",")
	case "host":
		hs := []string{"1.2.3.4", "10.0.0.0", "::1", "fe80::1", "fd00::", "256.1.1.1", "1.2.3", "@chost@", "@a:shost@"}
		var parts []string
		for k := 1 + rng.Intn(2); k > 0; k-- {
			h := hs[rng.Intn(len(hs))]
			for m := rng.Intn(3); m > 0; m-- {
				h += "/" + []string{"8", "24", "32", "33", "64", "128", "129", "-8", "-32", "-33", "-128", "-129", "0", "x", ""}[rng.Intn(15)]
			}
			parts = append(parts, h)
		}
		return strings.Join(parts, ",")
	case "time":
		ts := []string{"-1h", "-2h3m4s", "1300", "130000", "2020-01-01 1300", "-1h:", ":-5m", "@ftime@", "@a:ltime@-5m", "@ftime@+5m:", "25:61", "-", "1h"}
		var parts []string
		for k := 1 + rng.Intn(2); k > 0; k-- {
			a := ts[rng.Intn(len(ts))]
			if rng.Intn(2) == 0 {
				a += ":" + ts[rng.Intn(len(ts))]
			}
			parts = append(parts, a)
		}
		return strings.Join(parts, ",")
	case "names":
		ns := []string{"foo", "bar", "a_b", "x-y", "", "UPPER", "0"}
		var parts []string
		for k := 1 + rng.Intn(3); k > 0; k-- {
			parts = append(parts, ns[rng.Intn(len(ns))])
		}
		return strings.Join(parts, ",")
	case "proto":
		ps := []string{"tcp", "udp", "sctp", "icmp", "@protocol@", "@a:protocol@", ""}
		var parts []string
		for k := 1 + rng.Intn(3); k > 0; k-- {
			parts = append(parts, ps[rng.Intn(len(ps))])
		}
		return strings.Join(parts, ",")
	case "data":
		ds := []string{"foo", "\"a b\"", "\"x\"\"y\"", "f.o+", "(?P<v>[a-z]+)", "@v@", "\"@a:v@z\"", "[", "\"(\"", "a{2,1}", "\"\""}
		return ds[rng.Intn(len(ds))]
	case "sort":
		ks := []string{"id", "ftime", "ltime", "cbytes", "sbytes", "cport", "sport", "chost", "shost", "-id", "-ftime", "saddr", "", "-", " "}
		var parts []string
		for k := 1 + rng.Intn(3); k > 0; k-- {
			parts = append(parts, ks[rng.Intn(len(ks))])
		}
		v := strings.Join(parts, ",")
		if strings.ContainsAny(v, " ") || rng.Intn(5) == 0 {
			v = "\"" + v + "\""
		}
		return v
	}
	return ""
}

func c14Atom(rng *rand.Rand) string {
	sub := ""
	if rng.Intn(5) == 0 {
		sub = "@" + []string{"a", "b"}[rng.Intn(2)] + ":"
	}
	if rng.Intn(12) == 0 {
		// terms that cancel: the filter's own variable and a foreign one, each added and subtracted
		k := []string{"id", "cport", "sport", "cbytes", "sbytes"}[rng.Intn(5)]
		v := "@" + k + "@+@a:" + k + "@-@a:" + k + "@"
		switch rng.Intn(4) {
		case 0:
			v = "@a:" + k + "@-@a:" + k + "@+5"
		case 1:
			v += "+5:"
		case 2:
			v = ":" + v + "-@" + k + "@"
		}
		return sub + k + ":" + v
	}
	switch rng.Intn(12) {
	case 0:
		return sub + "id:" + c14Value(rng, "num")
	case 1:
		return sub + []string{"cport", "sport", "port"}[rng.Intn(3)] + ":" + c14Value(rng, "num")
	case 2:
		return sub + []string{"cbytes", "sbytes", "bytes"}[rng.Intn(3)] + ":" + c14Value(rng, "num")
	case 3:
		return sub + []string{"chost", "shost", "host"}[rng.Intn(3)] + ":" + c14Value(rng, "host")
	case 4:
		return sub + []string{"ftime", "ltime", "time"}[rng.Intn(3)] + ":" + c14Value(rng, "time")
	case 5:
		return sub + []string{"tag", "service", "mark", "generated"}[rng.Intn(4)] + ":" + c14Value(rng, "names")
	case 6:
		return sub + "protocol:" + c14Value(rng, "proto")
	case 7, 8:
		conv := ""
		if rng.Intn(4) == 0 {
			conv = "." + []string{"none", "c1", ""}[rng.Intn(3)]
		}
		return sub + []string{"cdata", "sdata", "data"}[rng.Intn(3)] + conv + ":" + c14Value(rng, "data")
	case 9:
		return "sort:" + c14Value(rng, "sort")
	case 10:
		return "limit:" + []string{"0", "10", "-1", "x", "18446744073709551616", ""}[rng.Intn(6)]
	default:
		return "group:\"" + []string{"@sport@", "@cport@ @chost@", "@a:id@", "@v@", "", "sport"}[rng.Intn(6)] + "\""
	}
}

func c14Query(rng *rand.Rand, depth int) string {
	if depth == 0 || rng.Intn(3) == 0 {
		a := c14Atom(rng)
		if rng.Intn(5) == 0 {
			a = "-" + a
		}
		return a
	}
	l, r := c14Query(rng, depth-1), c14Query(rng, depth-1)
	switch rng.Intn(6) {
	case 0, 1:
		return l + " " + r
	case 2:
		return l + " and " + r
	case 3:
		return l + " or " + r
	case 4:
		return l + " then " + r
	}
	return "-(" + l + " " + r + ")"
}

func c14Damage(rng *rand.Rand, s string) string {
	if len(s) == 0 {
		return s
	}
	i := rng.Intn(len(s))
	switch rng.Intn(5) {
	case 0:
		return s[:i] + s[i+1:]
	case 1:
		return s[:i] + string(s[i]) + s[i:]
	case 2:
		return s[:i] + []string{",", ":", "\"", "(", ")", "@", "-", "/", " "}[rng.Intn(9)] + s[i:]
	case 3:
		return s[:i]
	}
	return s[:i] + s[len(s)-1-rng.Intn(len(s)-i):]
}

func TestC14Standin(t *testing.T) {
	n, _ := strconv.Atoi(os.Getenv("C14_TEXTS"))
	if n == 0 {
		n = 6000
	}
	seed, _ := strconv.ParseInt(os.Getenv("STANDIN_SEED"), 10, 64)
	rng := rand.New(rand.NewSource(seed + 1414))
	type failure struct {
		Class  string `json:"class"`
		Input  string `json:"input"`
		Detail string `json:"detail"`
	}
	var failures []failure
	classes := map[string]int{}
	evals, accepted := 0, 0
	var samples []string
	out := os.Getenv("C14_OUT")
	flush := func(inflight string) {
		if out == "" {
			return
		}
		data, _ := json.MarshalIndent(map[string]any{"evaluations": evals, "nontrivial": accepted, "samples": samples, "failures": failures, "texts": n, "inflight": inflight, "classes": classes}, "", " ")
		os.WriteFile(out, data, 0o644)
	}
	fail := func(class, input, detail string) {
		classes[class]++
		if classes[class] <= 5 {
			failures = append(failures, failure{class, input, detail})
		}
	}
	type res struct {
		q   *Query
		err error
		pan string
	}
	parse := func(s string) (res, bool) {
		ch := make(chan res, 1)
		go func() {
			defer func() {
				if r := recover(); r != nil {
					ch <- res{pan: fmt.Sprint(r)}
				}
			}()
			q, err := Parse(s)
			ch <- res{q: q, err: err}
		}()
		select {
		case r := <-ch:
			return r, true
		case <-time.After(20 * time.Second):
			return res{}, false
		}
	}
	// deep nesting: long runs of negations and brackets (the parser recurses once per level; a run that
	// exhausts the stack ends the test binary, which the runner reports with the text in flight)
	var deep []string
	for _, d := range []int{10, 100, 499, 501, 5000, 100000, 1 << 20} {
		deep = append(deep, strings.Repeat("-", d)+"id:1", strings.Repeat("(", d)+"id:1"+strings.Repeat(")", d),
			strings.Repeat("-(", d)+"id:1"+strings.Repeat(")", d), strings.Repeat("(", d)+"id:1", strings.Repeat("!", d))
	}
	for i := 0; i < n+len(deep); i++ {
		var s string
		if i < len(deep) {
			s = deep[i]
			flush(fmt.Sprintf("%.40s... (%d bytes)", s, len(s)))
		} else {
			s = c14Query(rng, rng.Intn(3))
			if i%3 == 2 {
				s = c14Damage(rng, s)
			}
		}
		// normal forms that multiply out (negated disjunctions of lists) are outside the promptness claim
		if strings.Count(s, ",")+strings.Count(s, " or ")+strings.Count(s, "-(") > 6 {
			continue
		}
		evals++
		if evals%200 == 0 {
			flush(s)
		}
		r, done := parse(s)
		if !done {
			fail("hang", s, "Parse did not return within 20 s")
			flush(s)
			break // the parser goroutine keeps a core busy
		}
		if r.pan != "" {
			fail("panic", s, r.pan)
			continue
		}
		if r.err != nil {
			continue
		}
		accepted++
		if len(samples) < 5 {
			samples = append(samples, s)
		}
		r2, done := parse(s)
		if !done || r2.pan != "" || r2.err != nil {
			fail("second-parse", s, fmt.Sprintf("second parse of an accepted text: done=%v panic=%q err=%v", done, r2.pan, r2.err))
			continue
		}
		if a, b := r.q.Conditions.String(), r2.q.Conditions.String(); a != b {
			fail("not-deterministic", s, fmt.Sprintf("two parses give %s and %s", a, b))
		}
		// the printed form of the conditions must be printable without panic
		func() {
			defer func() {
				if rr := recover(); rr != nil {
					fail("string-panic", s, fmt.Sprint(rr))
				}
			}()
			_ = r.q.Conditions.String()
		}()
	}
	flush("")
	for i, f := range failures {
		if i < 12 {
			t.Log(f.Class, "|", f.Detail, "|", f.Input)
		}
	}
	t.Logf("evaluations=%d accepted=%d failures=%v", evals, accepted, classes)
}
