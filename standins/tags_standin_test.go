package manager

// Bounded stand-in for C11 (labelled bounded, never counted as proved): sequences of tag management calls
// against a plain model of the tag graph, through the public API of a real Manager (service goroutine,
// state file and all). The handlers AddTag/DelTag are proved to keep the graph well-formed; UpdateTag,
// the validation outside the handlers, acyclicity, atomicity of rejected calls and "never hangs" are
// only checked here, up to the stated bound. Injected with `go test -overlay`.

import (
	"encoding/json"
	"fmt"
	"math/rand"
	"os"
	"regexp"
	"sort"
	"strconv"
	"strings"
	"testing"
	"time"
)

type c11Tag struct {
	Def   string
	Color string
	Marks map[uint64]bool
	Conv  map[string]bool
}

type c11Op struct {
	Op    string   `json:"op"` // add del query color rename markadd markdel
	Name  string   `json:"name"`
	Arg   string   `json:"arg,omitempty"`
	Color string   `json:"color,omitempty"`
	IDs   []uint64 `json:"ids,omitempty"`
	Conv  []string `json:"converters,omitempty"`
}

var c11RefRe = regexp.MustCompile(`(tag|service|mark|generated):([a-z]+)`)

func c11Refs(def string) []string {
	var out []string
	for _, m := range c11RefRe.FindAllStringSubmatch(def, -1) {
		out = append(out, m[1]+"/"+m[2])
	}
	return out
}

func c11ValidName(n string) (typ string, ok bool) {
	typ, sub, found := strings.Cut(n, "/")
	if !found || sub == "" {
		return "", false
	}
	switch typ {
	case "tag", "service", "mark", "generated":
		return typ, true
	}
	return "", false
}

func c11ValidQuery(q string) bool { return q != "foo" && q != "ftime:-1h:" }

func c11IDs(def string) map[uint64]bool {
	out := map[uint64]bool{}
	if c11IDOnly(def) {
		for _, p := range strings.Split(def[3:], ",") {
			if v, err := strconv.ParseUint(p, 10, 64); err == nil {
				out[v] = true
			}
		}
	}
	return out
}

func c11IDOnly(q string) bool { return strings.HasPrefix(q, "id:") && !strings.Contains(q, " ") }

type c11Model map[string]*c11Tag

func (m c11Model) referenced(name string) bool {
	for n, t := range m {
		if n == name {
			continue
		}
		for _, r := range c11Refs(t.Def) {
			if r == name {
				return true
			}
		}
	}
	return false
}

// reaches: following references from the definition def leads to target
func (m c11Model) reaches(def string, target string) bool {
	seen := map[string]bool{}
	queue := c11Refs(def)
	for len(queue) > 0 {
		n := queue[0]
		queue = queue[1:]
		if n == target {
			return true
		}
		if seen[n] {
			continue
		}
		seen[n] = true
		if t, ok := m[n]; ok {
			queue = append(queue, c11Refs(t.Def)...)
		}
	}
	return false
}

// apply returns whether the call must be rejected; when accepted the model is updated.
func (m c11Model) apply(op c11Op, nextStreamID uint64) (reject bool) {
	switch op.Op {
	case "restart":
		// converters of a tag whose definition refers to other tags are not attached again at start (cannot happen
		// any more: such a definition is refused while converters are attached)
		for _, t := range m {
			if len(c11Refs(t.Def)) != 0 {
				t.Conv = map[string]bool{}
			}
		}
		return false
	case "add":
		typ, ok := c11ValidName(op.Name)
		if !ok || !c11ValidQuery(op.Arg) {
			return true
		}
		if (typ == "mark" || typ == "generated") && !c11IDOnly(op.Arg) {
			return true
		}
		if _, exists := m[op.Name]; exists {
			return true
		}
		for _, r := range c11Refs(op.Arg) {
			if r == op.Name {
				return true
			}
			if _, ok := m[r]; !ok {
				return true
			}
		}
		m[op.Name] = &c11Tag{Def: op.Arg, Color: op.Color, Marks: c11IDs(op.Arg), Conv: map[string]bool{}}
	case "del":
		if _, ok := m[op.Name]; !ok || m.referenced(op.Name) {
			return true
		}
		delete(m, op.Name)
	case "query":
		t, ok := m[op.Name]
		if !ok || !c11ValidQuery(op.Arg) {
			return true
		}
		if (strings.HasPrefix(op.Name, "mark/") || strings.HasPrefix(op.Name, "generated/")) && !c11IDOnly(op.Arg) {
			return true
		}
		for _, r := range c11Refs(op.Arg) {
			if r == op.Name {
				return true
			}
			if _, ok := m[r]; !ok {
				return true
			}
		}
		if m.reaches(op.Arg, op.Name) {
			return true
		}
		if len(t.Conv) != 0 && len(c11Refs(op.Arg)) != 0 {
			return true // the attached converters could not stay attached to a definition that refers to other tags
		}
		t.Def = op.Arg
		t.Marks = c11IDs(op.Arg)
	case "color":
		t, ok := m[op.Name]
		if !ok {
			return true
		}
		t.Color = op.Color
	case "rename":
		t, ok := m[op.Name]
		if !ok {
			return true
		}
		oldTyp, _ := c11ValidName(op.Name)
		newTyp, ok2 := c11ValidName(op.Arg)
		if !ok2 || newTyp != oldTyp {
			return true
		}
		if _, exists := m[op.Arg]; exists {
			return true
		}
		if m.referenced(op.Name) {
			return true
		}
		delete(m, op.Name)
		m[op.Arg] = t
	case "convset":
		t, ok := m[op.Name]
		if !ok {
			return true
		}
		want := map[string]bool{}
		for _, c := range op.Conv {
			if c != "ca" && c != "cb" && c != "cc" {
				return true // unknown converter
			}
			if !t.Conv[c] && len(c11Refs(t.Def)) != 0 {
				return true // a converter cannot be attached to a tag whose definition refers to other tags
			}
			want[c] = true
		}
		t.Conv = want
	case "markadd", "markdel":
		if !(strings.HasPrefix(op.Name, "mark/") || strings.HasPrefix(op.Name, "generated/")) {
			return true
		}
		t, ok := m[op.Name]
		if !ok {
			return true
		}
		for _, id := range op.IDs {
			if id >= nextStreamID {
				return true
			}
		}
		for _, id := range op.IDs {
			if op.Op == "markadd" {
				t.Marks[id] = true
			} else {
				delete(t.Marks, id)
			}
		}
	}
	return false
}

func c11Call(mgr *Manager, op c11Op) (err error, hung bool) {
	done := make(chan error, 1)
	go func() {
		switch op.Op {
		case "restart":
			done <- nil
		case "add":
			done <- mgr.AddTag(op.Name, op.Color, op.Arg)
		case "del":
			done <- mgr.DelTag(op.Name)
		case "query":
			done <- mgr.UpdateTag(op.Name, UpdateTagOperationUpdateQuery(op.Arg))
		case "color":
			done <- mgr.UpdateTag(op.Name, UpdateTagOperationUpdateColor(op.Color))
		case "rename":
			done <- mgr.UpdateTag(op.Name, UpdateTagOperationUpdateName(op.Arg))
		case "convset":
			done <- mgr.UpdateTag(op.Name, UpdateTagOperationSetConverter(op.Conv))
		case "markadd":
			done <- mgr.UpdateTag(op.Name, UpdateTagOperationMarkAddStream(op.IDs))
		case "markdel":
			done <- mgr.UpdateTag(op.Name, UpdateTagOperationMarkDelStream(op.IDs))
		}
	}()
	select {
	case e := <-done:
		return e, false
	case <-time.After(10 * time.Second):
		return nil, true
	}
}

func c11List(mgr *Manager) ([]TagInfo, bool) {
	done := make(chan []TagInfo, 1)
	go func() { done <- mgr.ListTags() }()
	select {
	case l := <-done:
		return l, false
	case <-time.After(10 * time.Second):
		return nil, true
	}
}

func c11Summary(l []TagInfo) string {
	var parts []string
	for _, t := range l {
		cs := append([]string(nil), t.Converters...)
		sort.Strings(cs)
		parts = append(parts, fmt.Sprintf("%s=%q ref=%v color=%s conv=%v", t.Name, t.Definition, t.Referenced, t.Color, cs))
	}
	return strings.Join(parts, "; ")
}

func TestC11Standin(t *testing.T) {
	nSeq, _ := strconv.Atoi(os.Getenv("C11_SEQS"))
	if nSeq == 0 {
		nSeq = 150
	}
	seqLen, _ := strconv.Atoi(os.Getenv("C11_LEN"))
	if seqLen == 0 {
		seqLen = 7
	}
	seed, _ := strconv.ParseInt(os.Getenv("STANDIN_SEED"), 10, 64)
	rng := rand.New(rand.NewSource(seed + 1111))
	names := []string{"tag/a", "tag/b", "tag/c", "service/s", "mark/m", "generated/g", "tag/", "foo", "tag/d"}
	queries := []string{"id:1", "id:1,3", "tag:a", "tag:b", "tag:c", "tag:a tag:b", "service:s", "tag:b or service:s", "mark:m", "tag:zzz", "foo", "cport:80 tag:c", "-tag:a", "tag:d"}
	colors := []string{"red", "blue"}
	idLists := [][]uint64{{0}, {1}, {0, 2}, {3}, {7}, {1, 2, 3}, {18446744073709551615}, {18446744073709551615, 1}, {2, 18446744073709551614}}
	convLists := [][]string{{}, {"ca"}, {"cb"}, {"ca", "cb", "cc"}, {"cc", "ca"}, {"ca", "nonexistent"}, {"nonexistent"}}
	var model c11Model
	existing := func() []string {
		var l []string
		for n := range model {
			l = append(l, n)
		}
		sort.Strings(l)
		return l
	}
	refQuery := func() string {
		// a definition over existing tags (or a plain id filter)
		ex := existing()
		if len(ex) == 0 || rng.Intn(3) == 0 {
			return queries[rng.Intn(2)]
		}
		var parts []string
		for k := 1 + rng.Intn(2); k > 0; k-- {
			n := ex[rng.Intn(len(ex))]
			typ, sub, _ := strings.Cut(n, "/")
			parts = append(parts, typ+":"+sub)
		}
		return strings.Join(parts, " ")
	}
	genOp := func() c11Op {
		n := names[rng.Intn(len(names))]
		ex := existing()
		if len(ex) > 0 && rng.Intn(3) != 0 {
			n = ex[rng.Intn(len(ex))]
		}
		q := queries[rng.Intn(len(queries))]
		if rng.Intn(3) != 0 {
			q = refQuery()
		}
		if rng.Intn(12) == 0 {
			return c11Op{Op: "restart"}
		}
		switch rng.Intn(10) {
		case 0, 1, 2:
			nn := names[rng.Intn(6)]
			if strings.HasPrefix(nn, "mark/") || strings.HasPrefix(nn, "generated/") {
				q = queries[rng.Intn(2)]
			}
			return c11Op{Op: "add", Name: nn, Arg: q, Color: colors[rng.Intn(2)]}
		case 3:
			return c11Op{Op: "del", Name: n}
		case 4, 5, 6:
			return c11Op{Op: "query", Name: n, Arg: q}
		case 7:
			if rng.Intn(2) == 0 {
				return c11Op{Op: "convset", Name: n, Conv: convLists[rng.Intn(len(convLists))]}
			}
			return c11Op{Op: "rename", Name: n, Arg: names[rng.Intn(len(names))]}
		case 8:
			if rng.Intn(2) == 0 {
				return c11Op{Op: "color", Name: n, Color: colors[rng.Intn(2)]}
			}
			return c11Op{Op: "markadd", Name: []string{"mark/m", "generated/g", "tag/a"}[rng.Intn(3)], IDs: idLists[rng.Intn(len(idLists))]}
		default:
			if rng.Intn(2) == 0 {
				return c11Op{Op: "markadd", Name: []string{"mark/m", "generated/g"}[rng.Intn(2)], IDs: idLists[rng.Intn(len(idLists))]}
			}
			return c11Op{Op: "markdel", Name: []string{"mark/m", "generated/g"}[rng.Intn(2)], IDs: idLists[rng.Intn(len(idLists))]}
		}
	}
	type failure struct {
		Class  string  `json:"class"`
		Input  string  `json:"input"`
		Detail string  `json:"detail"`
		Seq    []c11Op `json:"sequence"`
	}
	var failures []failure
	classes := map[string]int{}
	evals, nontrivial := 0, 0
	var samples [][]c11Op
	out := os.Getenv("C11_OUT")
	flush := func(inflight []c11Op) {
		if out == "" {
			return
		}
		data, _ := json.MarshalIndent(map[string]any{"evaluations": evals, "nontrivial": nontrivial, "samples": samples, "failures": failures, "sequences": nSeq, "sequence_length": seqLen, "inflight": inflight}, "", " ")
		os.WriteFile(out, data, 0o644)
	}
	fail := func(class string, seq []c11Op, detail string) {
		classes[class]++
		if classes[class] <= 5 {
			b, _ := json.Marshal(seq)
			failures = append(failures, failure{class, string(b), detail, seq})
		}
	}
	for si := 0; si < nSeq; si++ {
		d := makeTempdirs(t)
		for _, c := range []string{"ca", "cb", "cc"} {
			addConverter(d, c)
		}
		mgr := makeManager(t, d)
		nextStreamID := uint64(0)
		if si%2 == 0 {
			importSomePackets(t, mgr, t1, "pcapProcessed")
			nextStreamID = 4
		}
		model = c11Model{}
		var seq []c11Op
		dead := false
		for k := 0; k < seqLen && !dead; k++ {
			op := genOp()
			seq = append(seq, op)
			flush(seq)
			before, hung := c11List(mgr)
			if hung {
				fail("hang", seq, "ListTags does not answer")
				dead = true
				break
			}
			trial := c11Model{}
			for n, tg := range model {
				c := *tg
				c.Marks = map[uint64]bool{}
				for id := range tg.Marks {
					c.Marks[id] = true
				}
				c.Conv = map[string]bool{}
				for cn := range tg.Conv {
					c.Conv[cn] = true
				}
				trial[n] = &c
			}
			reject := trial.apply(op, nextStreamID)
			if op.Op == "restart" {
				// the tag table is persisted: a new manager over the same directories must come up with the same graph
				mgr.Close()
				mgr = makeManager(t, d)
			}
			err, hung := c11Call(mgr, op)
			evals++
			if hung {
				fail("hang", seq, fmt.Sprintf("%s(%s) does not return", op.Op, op.Name))
				dead = true
				break
			}
			after, hung := c11List(mgr)
			if hung {
				fail("hang", seq, "ListTags does not answer after the call")
				dead = true
				break
			}
			if (err != nil) != reject {
				fail("wrong-verdict", seq, fmt.Sprintf("%s(%s,%q): error=%v, the model says reject=%v; tags before: %s", op.Op, op.Name, op.Arg, err, reject, c11Summary(before)))
				break
			}
			if err != nil {
				if c11Summary(before) != c11Summary(after) {
					fail("not-atomic", seq, fmt.Sprintf("rejected call changed the tags: before %s | after %s", c11Summary(before), c11Summary(after)))
				}
				continue
			}
			nontrivial++
			model = trial
			// the table mirrors the model
			var wantNames []string
			for n := range model {
				wantNames = append(wantNames, n)
			}
			sort.Strings(wantNames)
			var gotNames []string
			for _, ti := range after {
				gotNames = append(gotNames, ti.Name)
			}
			if strings.Join(gotNames, ",") != strings.Join(wantNames, ",") {
				fail("tag-set", seq, fmt.Sprintf("tags %v, model %v", gotNames, wantNames))
				break
			}
			bad := false
			for _, ti := range after {
				mt := model[ti.Name]
				isMark := strings.HasPrefix(ti.Name, "mark/") || strings.HasPrefix(ti.Name, "generated/")
				if !isMark && ti.Definition != mt.Def {
					fail("definition", seq, fmt.Sprintf("%s: definition %q, model %q", ti.Name, ti.Definition, mt.Def))
					bad = true
				}
				if ti.Referenced != model.referenced(ti.Name) {
					fail("referenced-flag", seq, fmt.Sprintf("%s: Referenced=%v, model %v (%s)", ti.Name, ti.Referenced, model.referenced(ti.Name), c11Summary(after)))
					bad = true
				}
				var wantConv []string
				for cn := range mt.Conv {
					wantConv = append(wantConv, cn)
				}
				sort.Strings(wantConv)
				gotConv := append([]string(nil), ti.Converters...)
				sort.Strings(gotConv)
				if strings.Join(gotConv, ",") != strings.Join(wantConv, ",") {
					fail("converters", seq, fmt.Sprintf("%s: converters %v, model %v", ti.Name, gotConv, wantConv))
					bad = true
				}
				if ti.Color != mt.Color {
					fail("color", seq, fmt.Sprintf("%s: color %q, model %q", ti.Name, ti.Color, mt.Color))
					bad = true
				}
				if isMark && (op.Op == "markadd" || op.Op == "markdel") && op.Name == ti.Name {
					want := 0
					for id := range mt.Marks {
						if id < nextStreamID {
							want++
						}
					}
					if ti.UncertainCount == 0 && int(ti.MatchingCount) != want {
						fail("marks", seq, fmt.Sprintf("%s: %d matching streams, model has %d marked", ti.Name, ti.MatchingCount, want))
						bad = true
					}
				}
			}
			if bad {
				break
			}
		}
		if len(samples) < 3 {
			samples = append(samples, seq)
		}
		if !dead {
			mgr.Close()
		}
	}
	flush(nil)
	for i, f := range failures {
		if i < 12 {
			t.Log(f.Class, "|", f.Detail, "|", f.Input)
		}
	}
	t.Logf("evaluations=%d accepted=%d failures=%v", evals, nontrivial, classes)
}
