package manager

// Bounded stand-in for C08 (labelled bounded, never counted as proved): the import result does not depend on how
// and when captures arrive. Generated UDP conversations (several datagrams each, both directions, interleaved
// in time) are cut chronologically into capture files; the files are imported into separate services in one
// go, one by one in order, one by one in a shuffled order, and one by one with a restart in between. All
// services must end up showing the same conversations (endpoints, payload per direction in order) - ids may
// differ between services; within a service, a stream that has an id keeps it when later captures extend it, and
// no conversation is visible under two ids. Only the choice of stream ids is under contract. TCP reassembly,
// snapshots (they need 100000 packets) and inactivity time-outs are not generated. Injected with `go test -overlay`.

import (
	"context"
	"encoding/json"
	"fmt"
	"hash/crc32"
	"math/rand"
	"os"
	"sort"
	"strconv"
	"strings"
	"testing"
	"time"
)

type c08Packet struct {
	conv    int
	reply   bool
	at      time.Duration
	payload string
}

func c08Quiet(mgr *Manager, limit time.Duration) bool {
	deadline := time.Now().Add(limit)
	quietFor := 0
	for time.Now().Before(deadline) && quietFor < 5 {
		st := mgr.Status()
		if st.ImportJobCount != 0 || st.TaggingJobRunning || st.MergeJobRunning || st.ConverterJobRunning {
			quietFor = 0
		} else {
			quietFor++
		}
		time.Sleep(10 * time.Millisecond)
	}
	return quietFor >= 5
}

// c08Streams: what a fresh view shows, as one line per stream ("client>server dir:payload ..."), and by id
func c08Streams(mgr *Manager) ([]string, map[uint64]string, error) {
	v := mgr.GetView()
	defer v.Release()
	var lines []string
	byID := map[uint64]string{}
	ctx, cancel := context.WithTimeout(context.Background(), 20*time.Second)
	defer cancel()
	err := v.AllStreams(ctx, func(sc StreamContext) error {
		st := sc.Stream()
		d, err := sc.Data("")
		if err != nil {
			return err
		}
		ep := fmt.Sprintf("%s:%d>%s:%d", st.ClientHostIP(), st.ClientPort, st.ServerHostIP(), st.ServerPort)
		line := ep
		for _, c := range d {
			if len(c.Content) > 64 {
				// the filler: length and checksum instead of the text
				line += fmt.Sprintf(" %d:%s...(%d bytes, crc %08x)", c.Direction, string(c.Content[:8]), len(c.Content), crc32.ChecksumIEEE(c.Content))
				continue
			}
			line += fmt.Sprintf(" %d:%s", c.Direction, string(c.Content))
		}
		lines = append(lines, line)
		// the identity of a conversation: its two endpoints, whichever of them is taken for the client (a
		// capture that arrives first may hold only a reply; the roles are settled when the older capture arrives)
		a, b := fmt.Sprintf("%s:%d", st.ClientHostIP(), st.ClientPort), fmt.Sprintf("%s:%d", st.ServerHostIP(), st.ServerPort)
		if a > b {
			a, b = b, a
		}
		byID[st.ID()] = a + "<>" + b
		return nil
	})
	sort.Strings(lines)
	return lines, byID, err
}

func TestC08Standin(t *testing.T) {
	nRounds, _ := strconv.Atoi(os.Getenv("C08_ROUNDS"))
	if nRounds == 0 {
		nRounds = 10
	}
	seed, _ := strconv.ParseInt(os.Getenv("STANDIN_SEED"), 10, 64)
	rng := rand.New(rand.NewSource(seed + 808))
	type failure struct {
		Class  string `json:"class"`
		Input  string `json:"input"`
		Detail string `json:"detail"`
	}
	var failures []failure
	classes := map[string]int{}
	evals, nontrivial := 0, 0
	var samples []string
	fail := func(class, input, detail string) {
		classes[class]++
		if classes[class] <= 60 { // generous: failures are re-classified after the fact (known finding)
			failures = append(failures, failure{class, input, detail})
		}
	}
	words := []string{"foo", "bar", "baz", "qux", "x"}
	for round := 0; round < nRounds; round++ {
		// conversations
		nConv := 2 + rng.Intn(5)
		var pkts []c08Packet
		longLived := false
		slowConv := map[int]bool{} // conversations that last longer than the idle limit
		filler := 0
		staleSnapshot := false
		if round == 0 && os.Getenv("C08_SNAPSHOT") != "0" {
			// one round with a capture large enough for a reassembly snapshot (100000 packets): a conversation that
			// started long before the snapshot point and is still active has to be part of the snapshot
			nConv = 2
			for k := 0; k < 6; k++ {
				pkts = append(pkts, c08Packet{conv: 0, at: time.Duration(2*k) * time.Minute, payload: fmt.Sprintf("a%d", k)})
			}
			filler = 100200
			longLived = true
		} else if round == 2 && os.Getenv("C08_SNAPSHOT") != "0" {
			// a second round with a snapshot: the capture that holds the snapshot point arrives first, then an
			// older capture with a datagram of a conversation that is open at the snapshot point (which makes the
			// snapshot stale), then a capture that continues the conversation. No gap reaches the idle limit, with
			// or without the middle capture.
			nConv = 2
			for k := 0; k < 6; k++ {
				pkts = append(pkts, c08Packet{conv: 0, at: time.Duration(2*k) * time.Minute, payload: fmt.Sprintf("a%d", k)})
			}
			filler = 100200
			longLived = true
			staleSnapshot = true
		} else {
			for c := 0; c < nConv; c++ {
				at := time.Duration(rng.Intn(20)) * time.Second
				slow := rng.Intn(3) == 0 && round%3 != 1 // every third round: short conversations only, captures that overlap
				n := 1 + rng.Intn(4)
				if slow {
					n = 3 + rng.Intn(4)
				}
				for k := n; k > 0; k-- {
					pkts = append(pkts, c08Packet{conv: c, reply: len(pkts) > 0 && pkts[len(pkts)-1].conv == c && rng.Intn(2) == 0, at: at, payload: words[rng.Intn(len(words))]})
					if slow {
						// a long lived conversation: every gap is below the 5 minute idle limit, the whole is not
						at += time.Duration(120+rng.Intn(120)) * time.Second
						longLived = longLived || k > 2
						slowConv[c] = true
					} else {
						at += time.Duration(1+rng.Intn(30)) * time.Second
					}
				}
			}
		}
		if filler > 0 {
			// the filler: one busy conversation, 0.3 ms between datagrams, starting at minute 6.5
			for k := 0; k < filler; k++ {
				pkts = append(pkts, c08Packet{conv: 1, at: 390*time.Second + time.Duration(k)*300*time.Microsecond, payload: "f"})
			}
		}
		sort.SliceStable(pkts, func(i, j int) bool { return pkts[i].at < pkts[j].at })
		// chronological cut into capture files
		nFiles := 1 + rng.Intn(4)
		if round%3 == 1 {
			nFiles = 3 + rng.Intn(2)
		}
		if nFiles > len(pkts) {
			nFiles = len(pkts)
		}
		cuts := map[int]bool{}
		for len(cuts) < nFiles-1 {
			cuts[1+rng.Intn(len(pkts)-1)] = true
		}
		if filler > 0 {
			// two captures: everything up to minute 9 (the snapshot is taken inside it), and the rest
			cuts = map[int]bool{}
			for i, p := range pkts {
				if p.at > 9*time.Minute {
					cuts[i] = true
					break
				}
			}
		}
		var files [][]c08Packet
		var cur []c08Packet
		for i, p := range pkts {
			if cuts[i] && len(cur) > 0 {
				files = append(files, cur)
				cur = nil
			}
			cur = append(cur, p)
		}
		files = append(files, cur)
		if staleSnapshot {
			// arrival order: [a0 a1 a3 filler a4] [a2] [a5]
			files = [][]c08Packet{nil, nil, nil}
			for _, p := range pkts {
				switch {
				case p.payload == "a2":
					files[1] = append(files[1], p)
				case p.payload == "a5":
					files[2] = append(files[2], p)
				default:
					files[0] = append(files[0], p)
				}
			}
		}
		if filler == 0 && nFiles > 1 && !longLived && (round%3 == 1 || rng.Intn(2) == 0) {
			// captures that overlap in time (two capture points recording at once): every datagram goes to one of
			// the files, each file stays chronological. Importing them one by one then replays older captures
			// whose packets interleave. (Not with conversations longer than the idle limit: for those any arrival
			// out of time order is the recorded finding.)
			files = make([][]c08Packet, nFiles)
			for _, p := range pkts {
				k := rng.Intn(nFiles)
				files[k] = append(files[k], p)
			}
			for k := len(files) - 1; k >= 0; k-- {
				if len(files[k]) == 0 {
					files = append(files[:k], files[k+1:]...)
				}
			}
		}
		var desc []string
		for _, f := range files {
			var ps []string
			for pi, p := range f {
				if pi > 40 {
					ps = append(ps, fmt.Sprintf("... %d more", len(f)-pi))
					break
				}
				dir := ">"
				if p.reply {
					dir = "<"
				}
				ps = append(ps, fmt.Sprintf("c%d%s%s@%ds", p.conv, dir, p.payload, int(p.at.Seconds())))
			}
			desc = append(desc, "["+strings.Join(ps, " ")+"]")
		}
		input := strings.Join(desc, " ")
		if len(samples) < 3 {
			samples = append(samples, input)
		}
		mk := func(p c08Packet) pcapOverIPPacket {
			cl := fmt.Sprintf("9.0.%d.%d:%d", round%250, p.conv, 1000+p.conv)
			sv := fmt.Sprintf("2.3.4.5:%d", []int{9001, 80}[p.conv%2])
			if p.reply {
				return makeUDPPacket(sv, cl, t1.Add(p.at), p.payload)
			}
			return makeUDPPacket(cl, sv, t1.Add(p.at), p.payload)
		}
		// one way of importing: order of the files, one call or one by one, restarts in between
		run := func(name string, order []int, oneCall bool, restart bool, noWait ...bool) ([]string, bool) {
			d := makeTempdirs(t)
			mgr := makeManager(t, d)
			defer func() { mgr.Close() }()
			// a capture file is written when it is imported, not before (a restarted service takes every file it
			// finds in the capture directory for imported)
			nameOf := func(i int) []string {
				var pk []pcapOverIPPacket
				for _, p := range files[i] {
					pk = append(pk, mk(p))
				}
				n, err := writePcaps(mgr.PcapDir, pk)
				if err != nil {
					t.Fatalf("writePcaps: %v", err)
				}
				return n
			}
			known := map[uint64]string{}
			check := func(when string) bool {
				if !c08Quiet(mgr, 30*time.Second) {
					fail("never-quiet", input, name+": "+when+": the service does not settle")
					return false
				}
				lines, byID, err := c08Streams(mgr)
				if err != nil {
					fail("read-error", input, name+": "+when+": "+err.Error())
					return false
				}
				_ = lines
				for id, ep := range known {
					if g, ok := byID[id]; !ok || g != ep {
						fail("id-not-kept", input, fmt.Sprintf("%s: %s: stream %d was %s, now %q (present=%v)", name, when, id, ep, g, ok))
					}
				}
				seen := map[string]uint64{}
				for id, ep := range byID {
					if o, dup := seen[ep]; dup {
						fail("two-ids", input, fmt.Sprintf("%s: %s: conversation %s is visible as stream %d and as stream %d", name, when, ep, o, id))
					}
					seen[ep] = id
				}
				known = byID
				return true
			}
			if oneCall {
				var all []string
				for _, i := range order {
					all = append(all, nameOf(i)...)
				}
				mgr.ImportPcaps(all)
				if !check("after the import") {
					return nil, false
				}
			} else if len(noWait) > 0 && noWait[0] {
				// one call per capture, back to back: the later ones wait in the import queue
				for _, i := range order {
					mgr.ImportPcaps(nameOf(i))
				}
				if !check("after the queued imports") {
					return nil, false
				}
			} else {
				for k, i := range order {
					events, closer := mgr.Listen()
					mgr.ImportPcaps(nameOf(i))
					waitForEvent(t, events, closer, "pcapProcessed")
					if !check(fmt.Sprintf("after capture %d (step %d)", i, k)) {
						return nil, false
					}
					if restart && k < len(order)-1 {
						mgr.Close()
						mgr = makeManager(t, d)
					}
				}
			}
			lines, _, err := c08Streams(mgr)
			if err != nil {
				fail("read-error", input, name+": "+err.Error())
				return nil, false
			}
			return lines, true
		}
		inOrder := make([]int, len(files))
		for i := range inOrder {
			inOrder[i] = i
		}
		shuffled := append([]int(nil), inOrder...)
		rng.Shuffle(len(shuffled), func(i, j int) { shuffled[i], shuffled[j] = shuffled[j], shuffled[i] })
		ref, ok := run("all at once", inOrder, true, false)
		if !ok {
			continue
		}
		if len(ref) != nConv && filler == 0 {
			fail("one-shot", input, fmt.Sprintf("importing everything at once shows %d streams for %d conversations: %v", len(ref), nConv, ref))
		}
		for _, w := range []struct {
			name    string
			order   []int
			restart bool
			queued  bool
		}{{"one by one, in order", inOrder, false, false}, {fmt.Sprintf("one by one, order %v", shuffled), shuffled, false, false}, {"one by one with restarts", inOrder, true, false}, {"one call per capture, back to back", inOrder, false, true}} {
			// arrival out of order of a conversation longer than the idle limit: a known finding (a flow that was
			// split by the idle limit while a capture in its middle was missing keeps its second stream when the
			// capture arrives). Only failures that name such a conversation are classified apart.
			knownClass := longLived && strings.HasPrefix(w.name, "one by one, order")
			if knownClass && filler > 0 {
				continue
			}
			isSlow := func(text string) bool {
				for c := range slowConv {
					if strings.Contains(text, fmt.Sprintf("9.0.%d.%d:%d", round%250, c, 1000+c)) {
						return true
					}
				}
				return false
			}
			nf := len(failures)
			evals++
			got, ok := run(w.name, w.order, false, w.restart, w.queued)
			if knownClass {
				// what this evaluation reported about a long lived conversation belongs to the known class
				// (only the first five failures of a class are kept with their text; the others keep their class)
				for i := nf; i < len(failures); i++ {
					if (failures[i].Class == "two-ids" || failures[i].Class == "id-not-kept") && isSlow(failures[i].Detail) {
						classes[failures[i].Class]--
						if classes[failures[i].Class] == 0 {
							delete(classes, failures[i].Class)
						}
						failures[i].Class = "out-of-order-long-lived"
						classes["out-of-order-long-lived"]++
					}
				}
			}
			if !ok {
				continue
			}
			if strings.Join(got, "\n") != strings.Join(ref, "\n") {
				cls := "differs"
				if knownClass {
					// known only if every stream that differs belongs to a long lived conversation
					inRef := map[string]bool{}
					for _, l := range ref {
						inRef[l] = true
					}
					inGot := map[string]bool{}
					for _, l := range got {
						inGot[l] = true
					}
					onlySlow := true
					for _, l := range append(append([]string(nil), ref...), got...) {
						if inRef[l] != inGot[l] && !isSlow(l) {
							onlySlow = false
						}
					}
					if onlySlow {
						cls = "out-of-order-long-lived"
					}
				}
				fail(cls, input, fmt.Sprintf("%s shows %v, importing everything at once shows %v", w.name, got, ref))
			} else {
				nontrivial++
			}
		}
	}
	out := map[string]any{"evaluations": evals, "nontrivial": nontrivial, "samples": samples, "failures": failures, "rounds": nRounds, "classes": classes}
	if p := os.Getenv("C08_OUT"); p != "" {
		data, _ := json.MarshalIndent(out, "", " ")
		os.WriteFile(p, data, 0o644)
	}
	for i, f := range failures {
		if i < 8 {
			t.Log(f.Class, "|", f.Detail, "|", f.Input)
		}
	}
	t.Logf("evaluations=%d nontrivial=%d failures=%v", evals, nontrivial, classes)
}
