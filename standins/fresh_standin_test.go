package manager

// Bounded stand-in for C06 (labelled bounded, never counted as proved): after a generated history of
// imports, tag additions, definition updates and mark changes the service is left alone until no job is
// running and no tag reports undecided streams; then every tag's decided membership must equal what its
// current definition selects on the current data (a lost invalidation leaves a decided, stale tag that
// nothing repairs). The interleaving of job completions with the calls is whatever the scheduler produces;
// it is not enumerated. Injected with `go test -overlay`.

import (
	"context"
	"encoding/json"
	"fmt"
	"math/rand"
	"os"
	"regexp"
	"sort"
	"strconv"
	"strings"
	"testing"
	"time"

	"github.com/spq/pkappa2/internal/query"
)

func c06Search(mgr *Manager, qs string) ([]string, error) {
	v := mgr.GetView()
	defer v.Release()
	return c06SearchView(&v, qs)
}

// c06InFlight: on one view, taken while jobs may be running, every tag's answers agree with its
// definition evaluated on that view's data: the search for the tag, the search for the definition, and
// HasTag for every stream (undecided streams are evaluated on demand, decided ones read from the match set).
func c06InFlight(mgr *Manager, markDef func(string) (string, bool)) (string, error) {
	v := mgr.GetView()
	defer v.Release()
	tags := mgr.ListTags()
	// known finding: inlining the definition of an undecided tag ignores sub-queries - a filter inside a
	// sub-query loses its sub-query, and a definition with a sub-query of its own is merged (or negated) as if
	// everything belonged to the main query. Tags whose evaluation needs such an inlining, and tags that refer
	// to those, are classified apart.
	// (what is undecided is read from the view's own snapshot: the listing above is older than the view, an
	// import that finishes in between leaves the new streams undecided in the view only)
	undecided := map[string]bool{}
	if err := v.fetch(); err != nil {
		return "", fmt.Errorf("view: %w", err)
	}
	for i := range tags {
		if td, ok := v.tagDetails[tags[i].Name]; ok {
			tags[i].UncertainCount = uint(td.Uncertain.OnesCount())
		}
		if tags[i].UncertainCount != 0 {
			undecided[tags[i].Name] = true
		}
	}
	tainted := map[string]bool{}
	hasSub := map[string]bool{}
	for _, ti := range tags {
		hasSub[ti.Name] = strings.Contains(ti.Definition, "@")
	}
	for _, ti := range tags {
		// (i) a filter on an undecided tag inside a sub-query
		for _, m := range c06SubRefRe.FindAllStringSubmatch(ti.Definition, -1) {
			if undecided[m[1]+"/"+m[2]] {
				tainted[ti.Name] = true
			}
		}
		// (ii) a filter on an undecided tag whose own definition has a sub-query (its conditions are merged,
		// and under a negation inverted, as if they belonged to the main query)
		for _, m := range c06RefRe.FindAllStringSubmatch(ti.Definition, -1) {
			if n := m[1] + "/" + m[2]; undecided[n] && hasSub[n] {
				tainted[ti.Name] = true
			}
		}
	}
	for changed := true; changed; {
		changed = false
		for _, ti := range tags {
			if tainted[ti.Name] {
				continue
			}
			for _, m := range c06RefRe.FindAllStringSubmatch(ti.Definition, -1) {
				if tainted[m[1]+"/"+m[2]] {
					tainted[ti.Name] = true
					changed = true
				}
			}
		}
	}
	for _, ti := range tags {
		typ, sub, _ := strings.Cut(ti.Name, "/")
		none := false
		if typ == "mark" {
			// the listing does not show a mark's id list; the harness keeps it
			ti.Definition, none = markDef(ti.Name)
		}
		byTag, err := c06SearchView(&v, typ+":"+sub)
		if err != nil {
			return "", fmt.Errorf("search %s:%s: %w", typ, sub, err)
		}
		var byDef []string
		if !none {
			if byDef, err = c06SearchView(&v, ti.Definition); err != nil {
				return "", fmt.Errorf("search %q: %w", ti.Definition, err)
			}
		}
		var has []string
		ctx, cancel := context.WithTimeout(context.Background(), 20*time.Second)
		err = v.AllStreams(ctx, func(sc StreamContext) error {
			ok, err := sc.HasTag(ti.Name)
			if err != nil {
				return err
			}
			if ok {
				has = append(has, strconv.FormatUint(sc.Stream().ID(), 10))
			}
			return nil
		}, PrefetchTags([]string{ti.Name}))
		cancel()
		if err != nil {
			return "", fmt.Errorf("HasTag(%s): %w", ti.Name, err)
		}
		sort.Strings(has)
		if a, b, c := strings.Join(byTag, " "), strings.Join(byDef, " "), strings.Join(has, " "); a != b || c != b {
			if tainted[ti.Name] {
				return "subquery-tag|" + fmt.Sprintf("%s := %q (%d undecided): search by tag [%s], HasTag [%s], the definition selects [%s]", ti.Name, ti.Definition, ti.UncertainCount, a, c, b), nil
			}
			return fmt.Sprintf("%s := %q (%d undecided): search by tag [%s], HasTag [%s], the definition selects [%s]", ti.Name, ti.Definition, ti.UncertainCount, a, c, b), nil
		}
	}
	return "", nil
}

var (
	c06SubRefRe = regexp.MustCompile(`@[a-z]+:(tag|service|mark|generated):([a-z]+)`)
	c06RefRe    = regexp.MustCompile(`(tag|service|mark|generated):([a-z]+)`)
)

func c06SearchView(v *View, qs string) ([]string, error) {
	q, err := query.Parse(qs)
	if err != nil {
		return nil, err
	}
	ctx, cancel := context.WithTimeout(context.Background(), 20*time.Second)
	defer cancel()
	var ids []string
	_, _, _, err = v.SearchStreams(ctx, q, func(sc StreamContext) error {
		ids = append(ids, strconv.FormatUint(sc.Stream().ID(), 10))
		return nil
	}, Limit(1000, 0))
	sort.Strings(ids)
	return ids, err
}

// c06Import imports four packets: two of new conversations (new streams) and two that continue
// conversations of the first import (more data for existing streams).
func c06Import(t *testing.T, mgr *Manager, at time.Time, n int) {
	pcaps, err := writePcaps(mgr.PcapDir, []pcapOverIPPacket{
		makeUDPPacket(fmt.Sprintf("1.2.3.4:%d", 100+n), "4.3.2.1:4321", at.Add(time.Second*0), "bar"),
		makeUDPPacket(fmt.Sprintf("1.2.3.4:%d", 101+n), "4.3.2.1:80", at.Add(time.Second*1), "foo"),
		makeUDPPacket("1.2.3.4:1", "4.3.2.1:4321", at.Add(time.Second*2), "baz"),
		makeUDPPacket("1.2.3.4:3", "4.3.2.1:4321", at.Add(time.Second*3), "foo"),
	})
	if err != nil {
		t.Fatalf("writePcaps: %v", err)
	}
	mgr.ImportPcaps(pcaps)
}

func TestC06FreshStandin(t *testing.T) {
	nHist, _ := strconv.Atoi(os.Getenv("C06_HISTORIES"))
	if nHist == 0 {
		nHist = 20
	}
	histLen, _ := strconv.Atoi(os.Getenv("C06_LEN"))
	if histLen == 0 {
		histLen = 8
	}
	seed, _ := strconv.ParseInt(os.Getenv("STANDIN_SEED"), 10, 64)
	rng := rand.New(rand.NewSource(seed + 606))
	type failure struct {
		Class  string `json:"class"`
		Input  string `json:"input"`
		Detail string `json:"detail"`
	}
	var failures []failure
	classes := map[string]int{}
	evals, nontrivial := 0, 0
	var samples []string
	fail := func(class, input, detail string) {
		classes[class]++
		if classes[class] <= 5 {
			failures = append(failures, failure{class, input, detail})
		}
	}
	// definitions: plain filters, payload filters, references to other tags (main and sub-query)
	plain := []string{"cport:1,2", "cport:3:", "sport:4321", "cdata:ba", "cdata:foo", "ftime:1000:", "-cport:2", "id:0:5", "id:2:", "sport:80", "cbytes:4:", ""}
	for h := 0; h < nHist; h++ {
		d := makeTempdirs(t)
		mgr := makeManager(t, d)
		importSomePackets(t, mgr, t1, "pcapProcessed")
		nStreams := 4
		defs := map[string]string{}
		markIDs := map[uint64]bool{}
		setMark := func(def string) {
			markIDs = map[uint64]bool{}
			for _, p := range strings.Split(strings.TrimPrefix(def, "id:"), ",") {
				if id, err := strconv.ParseUint(p, 10, 64); err == nil {
					markIDs[id] = true
				}
			}
		}
		// marks name streams that exist at that moment (a mark operation rewrites the definition from the
		// streams that exist; ids of streams still being imported are outside this harness' model)
		existing := func() int {
			if n := int(mgr.Status().StreamCount); n > 0 {
				return n
			}
			return 1
		}
		markDef := func(string) (string, bool) {
			var ids []string
			for id := range markIDs {
				ids = append(ids, strconv.FormatUint(id, 10))
			}
			sort.Strings(ids)
			return "id:" + strings.Join(ids, ","), len(ids) == 0
		}
		var ops []string
		names := []string{"tag/a", "tag/b", "service/s", "mark/m"}
		refDef := func(self string) string {
			var ex []string
			for n := range defs {
				if n != self {
					ex = append(ex, n)
				}
			}
			sort.Strings(ex)
			if len(ex) == 0 || rng.Intn(2) == 0 {
				return plain[rng.Intn(len(plain))]
			}
			n := ex[rng.Intn(len(ex))]
			typ, sub, _ := strings.Cut(n, "/")
			switch rng.Intn(3) {
			case 0:
				return typ + ":" + sub
			case 1:
				return "-" + typ + ":" + sub + " " + plain[rng.Intn(len(plain))]
			}
			return "@s:" + typ + ":" + sub + " sport:@s:sport@"
		}
		for step := 0; step < histLen; step++ {
			switch rng.Intn(6) {
			case 0, 1:
				n := names[rng.Intn(len(names))]
				if _, ok := defs[n]; ok {
					continue
				}
				def := refDef(n)
				if strings.HasPrefix(n, "mark/") {
					def = fmt.Sprintf("id:%d", rng.Intn(existing()))
				}
				if err := mgr.AddTag(n, "red", def); err == nil {
					defs[n] = def
					if strings.HasPrefix(n, "mark/") {
						setMark(def)
					}
					ops = append(ops, fmt.Sprintf("AddTag(%s,%q)", n, def))
				}
			case 2:
				n := names[rng.Intn(4)]
				if _, ok := defs[n]; !ok {
					continue
				}
				def := refDef(n)
				if strings.HasPrefix(n, "mark/") {
					// a mark is redefined by a new id list
					def = fmt.Sprintf("id:%d", rng.Intn(existing()))
					if rng.Intn(2) == 0 {
						def += fmt.Sprintf(",%d", rng.Intn(existing()))
					}
				}
				if err := mgr.UpdateTag(n, UpdateTagOperationUpdateQuery(def)); err == nil {
					defs[n] = def
					if strings.HasPrefix(n, "mark/") {
						setMark(def)
					}
					ops = append(ops, fmt.Sprintf("UpdateQuery(%s,%q)", n, def))
				}
			case 3:
				if _, ok := defs["mark/m"]; ok {
					ids := []uint64{uint64(rng.Intn(existing()))}
					if rng.Intn(2) == 0 {
						if mgr.UpdateTag("mark/m", UpdateTagOperationMarkAddStream(ids)) == nil {
							ops = append(ops, fmt.Sprintf("MarkAdd(%v)", ids))
							markIDs[ids[0]] = true
						}
					} else if mgr.UpdateTag("mark/m", UpdateTagOperationMarkDelStream(ids)) == nil {
						ops = append(ops, fmt.Sprintf("MarkDel(%v)", ids))
						delete(markIDs, ids[0])
					}
				}
			case 4:
				if nStreams < 12 {
					// more packets: new streams, and more data for the conversations that exist already
					c06Import(t, mgr, t1.Add(time.Duration(nStreams)*time.Second), nStreams)
					nStreams += 2
					ops = append(ops, "import")
				}
			default:
				time.Sleep(time.Duration(rng.Intn(20)) * time.Millisecond)
			}
			// while jobs are in flight: a view's answers about every tag agree with the tag's definition
			evals++
			if bad, err := c06InFlight(mgr, markDef); err != nil {
				fail("search-error", strings.Join(ops, "; "), err.Error())
			} else if rest, ok := strings.CutPrefix(bad, "subquery-tag|"); ok {
				fail("in-flight-subquery-tag", strings.Join(ops, "; "), rest)
			} else if bad != "" {
				fail("in-flight", strings.Join(ops, "; "), bad)
			}
		}
		// wait until the service is quiet and every tag is decided
		deadline := time.Now().Add(30 * time.Second)
		quiet := false
		for time.Now().Before(deadline) {
			st := mgr.Status()
			busy := st.ImportJobCount != 0 || st.TaggingJobRunning || st.MergeJobRunning || st.ConverterJobRunning
			for _, ti := range mgr.ListTags() {
				if ti.UncertainCount != 0 {
					busy = true
				}
			}
			if !busy {
				quiet = true
				break
			}
			time.Sleep(10 * time.Millisecond)
		}
		hist := strings.Join(ops, "; ")
		if !quiet {
			fail("never-quiet", hist, "after 30 s a job is still running or a tag still reports undecided streams")
			mgr.Close()
			continue
		}
		if len(samples) < 3 {
			samples = append(samples, hist)
		}
		for n, def := range defs {
			if strings.HasPrefix(n, "mark/") {
				continue // a mark's definition is rewritten by mark changes; its membership is its definition
			}
			evals++
			typ, sub, _ := strings.Cut(n, "/")
			byTag, err1 := c06Search(mgr, typ+":"+sub)
			byDef, err2 := c06Search(mgr, def)
			if err1 != nil || err2 != nil {
				fail("search-error", hist, fmt.Sprintf("%s: %v %v", n, err1, err2))
				continue
			}
			if len(byDef) > 0 {
				nontrivial++
			}
			if strings.Join(byTag, " ") != strings.Join(byDef, " ") {
				fail("stale-tag", hist, fmt.Sprintf("%s := %q is decided for streams [%s] but its definition selects [%s]", n, def, strings.Join(byTag, " "), strings.Join(byDef, " ")))
			}
		}
		mgr.Close()
	}
	out := map[string]any{"evaluations": evals, "nontrivial": nontrivial, "samples": samples, "failures": failures, "histories": nHist, "history_length": histLen, "classes": classes}
	if p := os.Getenv("C06_OUT"); p != "" {
		data, _ := json.MarshalIndent(out, "", " ")
		os.WriteFile(p, data, 0o644)
	}
	for i, f := range failures {
		if i < 8 {
			t.Log(f.Class, "|", f.Detail, "|", f.Input)
		}
	}
	t.Logf("evaluations=%d nontrivial=%d failures=%v", evals, nontrivial, classes)
}
