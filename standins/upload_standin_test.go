package main

// Bounded stand-in for C19 (labelled bounded, never counted as proved): file endpoints stay inside the capture
// directory and never overwrite. The real router (setupRouter) is served by httptest; generated request paths
// for POST /upload/... and GET /api/download/pcap/... - plain names, dot segments, encoded separators and dots,
// absolute paths, odd suffixes - and pairs of concurrent uploads of one name. After every request the whole
// temporary tree is compared with a model: nothing outside the capture directory is created or changed, nothing
// outside it is returned by a download, an upload of an existing name fails and leaves the stored bytes, a
// successful upload stores exactly the body. (web/web.go is replaced by a stub for this build: the real one
// embeds the built frontend, which does not exist here.) Injected with `go test -overlay`.

import (
	"bytes"
	"encoding/json"
	"fmt"
	"io"
	"math/rand"
	"net/http"
	"net/http/httptest"
	"os"
	"path/filepath"
	"sort"
	"strconv"
	"strings"
	"sync"
	"testing"
)

func c19Tree(root string) map[string]string {
	out := map[string]string{}
	filepath.Walk(root, func(p string, info os.FileInfo, err error) error {
		if err != nil || info.IsDir() {
			return nil
		}
		rel, _ := filepath.Rel(root, p)
		if strings.HasPrefix(rel, "state/") || strings.HasPrefix(rel, "index/") || strings.HasPrefix(rel, "snapshot/") {
			return nil // written by the service's own jobs
		}
		b, _ := os.ReadFile(p)
		out[rel] = string(b)
		return nil
	})
	return out
}

func TestC19Standin(t *testing.T) {
	n, _ := strconv.Atoi(os.Getenv("C19_REQUESTS"))
	if n == 0 {
		n = 400
	}
	seed, _ := strconv.ParseInt(os.Getenv("STANDIN_SEED"), 10, 64)
	rng := rand.New(rand.NewSource(seed + 1919))
	type failure struct {
		Class  string `json:"class"`
		Input  string `json:"input"`
		Detail string `json:"detail"`
	}
	var failures []failure
	classes := map[string]int{}
	evals, nontrivial := 0, 0
	var samples []string
	fail := func(class, input, detail string) {
		classes[class]++
		if classes[class] <= 5 {
			failures = append(failures, failure{class, input, detail})
		}
	}
	d := makeTempdirs(t)
	*baseDir = d.base
	*pcapDir = "pcap"
	mgr := makeManager(t, d)
	defer mgr.Close()
	srv := httptest.NewServer(setupRouter(mgr, nil, nil))
	defer srv.Close()
	// files that must never be read or touched
	secret := "top secret " + strconv.Itoa(rng.Int())
	os.WriteFile(filepath.Join(d.base, "outside.pcap"), []byte(secret), 0o644)
	os.WriteFile(filepath.Join(d.base, "state", "outside.pcap"), []byte(secret), 0o644)
	os.WriteFile(filepath.Join(d.base, "pcap", "stored.pcap"), []byte("stored bytes"), 0o644)
	model := c19Tree(d.base)
	names := []string{"a.pcap", "b.pcapng", "stored.pcap", "outside.pcap", "x y.pcap", "ä.pcap", ".pcap", "..pcap", "a.pcap.pcap", "a.txt", "A.PCAP"}
	prefixes := []string{"", "../", "..%2f", "%2e%2e/", "%2e%2e%2f", "../state/", "..%2fstate%2f", "./", "//", "/", "%2f", "sub/", "sub%2f", "..%5c", "....//", "%00", "..;/", "pcap/../../", "%252e%252e%252f"}
	client := &http.Client{}
	do := func(method, rawPath string, body string) (int, string, error) {
		req, err := http.NewRequest(method, srv.URL+rawPath, strings.NewReader(body))
		if err != nil {
			return 0, "", err
		}
		resp, err := client.Do(req)
		if err != nil {
			return 0, "", err
		}
		defer resp.Body.Close()
		b, _ := io.ReadAll(resp.Body)
		return resp.StatusCode, string(b), nil
	}
	compare := func(input string, allowed map[string]string) {
		now := c19Tree(d.base)
		var keys []string
		for k := range now {
			keys = append(keys, k)
		}
		for k := range model {
			if _, ok := now[k]; !ok {
				keys = append(keys, k)
			}
		}
		sort.Strings(keys)
		for _, k := range keys {
			want, had := model[k]
			got, has := now[k]
			if a, ok := allowed[k]; ok {
				want, had = a, true
			}
			switch {
			case has && !had:
				fail("created", input, fmt.Sprintf("file %q appeared (%d bytes)", k, len(got)))
			case !has && had:
				fail("removed", input, fmt.Sprintf("file %q disappeared", k))
			case has && got != want:
				fail("changed", input, fmt.Sprintf("file %q changed from %q to %q", k, want, got))
			}
		}
		model = now
	}
	for i := 0; i < n; i++ {
		name := names[rng.Intn(len(names))]
		raw := prefixes[rng.Intn(len(prefixes))] + name
		body := fmt.Sprintf("body %d", i)
		switch rng.Intn(4) {
		case 0, 1:
			evals++
			input := "POST /upload/" + raw
			if len(samples) < 5 {
				samples = append(samples, input)
			}
			code, _, err := do("POST", "/upload/"+raw, body)
			if err != nil {
				continue // the client refused to send this path
			}
			allowed := map[string]string{}
			if code == http.StatusOK {
				nontrivial++
				// accepted: exactly one new file, a plain name inside the capture directory, holding the body
				now := c19Tree(d.base)
				var created []string
				for k := range now {
					if _, ok := model[k]; !ok {
						created = append(created, k)
					}
				}
				if len(created) != 1 || filepath.Dir(created[0]) != "pcap" || now[created[0]] != body {
					fail("upload", input, fmt.Sprintf("accepted, files created: %v", created))
				} else {
					allowed[created[0]] = body
				}
			}
			compare(input, allowed)
		case 2:
			evals++
			input := "GET /api/download/pcap/" + raw
			code, got, err := do("GET", "/api/download/pcap/"+raw, "")
			if err != nil {
				continue
			}
			if code == http.StatusOK {
				nontrivial++
				ok := false
				for k, v := range model {
					if filepath.Dir(k) == "pcap" && v == got {
						ok = true
					}
				}
				if !ok || strings.Contains(got, secret) {
					fail("download", input, fmt.Sprintf("returned %q, which is not the content of a file in the capture directory", got))
				}
			} else if strings.Contains(got, secret) {
				fail("download", input, "an error response carries the content of a file outside the capture directory")
			}
			compare(input, nil)
		default:
			// two uploads of one new name at the same time: exactly one may succeed, the file holds its body
			evals++
			nm := fmt.Sprintf("race%d.pcap", i)
			input := "2x POST /upload/" + nm
			var wg sync.WaitGroup
			codes := make([]int, 2)
			for k := 0; k < 2; k++ {
				wg.Add(1)
				go func(k int) {
					defer wg.Done()
					codes[k], _, _ = do("POST", "/upload/"+nm, fmt.Sprintf("racer %d of %d", k, i))
				}(k)
			}
			wg.Wait()
			okc := 0
			for _, c := range codes {
				if c == http.StatusOK {
					okc++
				}
			}
			now := c19Tree(d.base)
			got, has := now["pcap/"+nm]
			if okc != 1 || !has || !(got == fmt.Sprintf("racer 0 of %d", i) && codes[0] == 200 || got == fmt.Sprintf("racer 1 of %d", i) && codes[1] == 200) {
				fail("concurrent-upload", input, fmt.Sprintf("status codes %v, stored %q (present=%v)", codes, got, has))
			} else {
				nontrivial++
			}
			compare(input, map[string]string{"pcap/" + nm: got})
		}
	}
	out := map[string]any{"evaluations": evals, "nontrivial": nontrivial, "samples": samples, "failures": failures, "requests": n, "classes": classes}
	if p := os.Getenv("C19_OUT"); p != "" {
		data, _ := json.MarshalIndent(out, "", " ")
		os.WriteFile(p, data, 0o644)
	}
	for i, f := range failures {
		if i < 8 {
			t.Log(f.Class, "|", f.Detail, "|", f.Input)
		}
	}
	t.Logf("evaluations=%d nontrivial=%d failures=%v", evals, nontrivial, classes)
	_ = bytes.NewReader
}
