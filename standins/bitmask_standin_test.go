package bitmask

// Bounded stand-in for C17 (labelled bounded, never counted as proved): ShortBitmask (a linked list,
// outside the verifier's memory model), the membership meaning of ConnectedBitmask's set algebra and
// Inject/Extract, and the agreement of the three representations, checked by running every operation
// sequence up to a bound against a plain set model. Injected with `go test -overlay`.

import (
	"encoding/json"
	"fmt"
	"math/rand"
	"os"
	"sort"
	"strconv"
	"testing"
)

type c17model map[uint]bool

func (m c17model) copy() c17model {
	n := c17model{}
	for k := range m {
		n[k] = true
	}
	return n
}
func (m c17model) inject(bit uint, v bool) c17model {
	n := c17model{}
	for k := range m {
		if k >= bit {
			n[k+1] = true
		} else {
			n[k] = true
		}
	}
	if v {
		n[bit] = true
	}
	return n
}
func (m c17model) extract(bit uint) (c17model, bool) {
	n := c17model{}
	for k := range m {
		if k > bit {
			n[k-1] = true
		} else if k < bit {
			n[k] = true
		}
	}
	return n, m[bit]
}
func (m c17model) bits() []uint {
	var b []uint
	for k := range m {
		b = append(b, k)
	}
	sort.Slice(b, func(i, j int) bool { return b[i] < b[j] })
	return b
}

type c17op struct {
	Op  string `json:"op"`
	Bit uint   `json:"bit,omitempty"`
	Val bool   `json:"val,omitempty"`
	Arg []uint `json:"arg,omitempty"` // operand set for the algebra operations
}

type c17triple struct {
	l LongBitmask
	s ShortBitmask
	c ConnectedBitmask
}

func c17from(bits []uint) c17triple {
	t := c17triple{}
	for _, b := range bits {
		t.l.Set(b)
		t.s.Set(b)
		t.c.Set(b)
	}
	return t
}

func c17check(t *c17triple, m c17model, universe uint) string {
	for b := uint(0); b < universe; b++ {
		if t.l.IsSet(b) != m[b] {
			return fmt.Sprintf("LongBitmask.IsSet(%d)=%v, model %v", b, t.l.IsSet(b), m[b])
		}
		if t.s.IsSet(b) != m[b] {
			return fmt.Sprintf("ShortBitmask.IsSet(%d)=%v, model %v", b, t.s.IsSet(b), m[b])
		}
		if t.c.IsSet(b) != m[b] {
			return fmt.Sprintf("ConnectedBitmask.IsSet(%d)=%v, model %v", b, t.c.IsSet(b), m[b])
		}
	}
	n := len(m)
	if t.l.OnesCount() != n || t.s.OnesCount() != n || t.c.OnesCount() != n {
		return fmt.Sprintf("OnesCount %d/%d/%d, model %d", t.l.OnesCount(), t.s.OnesCount(), t.c.OnesCount(), n)
	}
	ln := 0
	for b := range m {
		if int(b)+1 > ln {
			ln = int(b) + 1
		}
	}
	if t.l.Len() != ln || t.s.Len() != ln || t.c.Len() != ln {
		return fmt.Sprintf("Len %d/%d/%d, model %d", t.l.Len(), t.s.Len(), t.c.Len(), ln)
	}
	if t.l.IsZero() != (n == 0) || t.s.IsZero() != (n == 0) || t.c.IsZero() != (n == 0) {
		return "IsZero disagrees with the model"
	}
	// canonical form: a set built from scratch compares equal
	ref := c17from(m.bits())
	if !t.c.Equal(ref.c) {
		return "ConnectedBitmask.Equal(same set built by Set) is false"
	}
	if !t.l.Equal(ref.l) || !t.s.Equal(ref.s) {
		return "Long/ShortBitmask.Equal(same set built by Set) is false"
	}
	return ""
}

func c17apply(t *c17triple, m c17model, op c17op, b *c17triple, mb *c17model) (c17model, string) {
	switch op.Op {
	case "setB":
		b.l.Set(op.Bit)
		b.s.Set(op.Bit)
		b.c.Set(op.Bit)
		n := mb.copy()
		n[op.Bit] = true
		*mb = n
	case "orB", "andB", "xorB", "subB":
		// the second operand lives on: a result that shares storage with it shows up when either is changed later
		n := c17model{}
		switch op.Op {
		case "orB":
			t.l.Or(b.l)
			t.s.Or(b.s)
			t.c.Or(b.c)
			for k := range m {
				n[k] = true
			}
			for k := range *mb {
				n[k] = true
			}
		case "andB":
			t.l.And(b.l)
			t.s.And(b.s)
			t.c.And(b.c)
			for k := range m {
				if (*mb)[k] {
					n[k] = true
				}
			}
		case "xorB":
			t.l.Xor(b.l)
			t.s.Xor(b.s)
			t.c.Xor(b.c)
			for k := range m {
				if !(*mb)[k] {
					n[k] = true
				}
			}
			for k := range *mb {
				if !m[k] {
					n[k] = true
				}
			}
		case "subB":
			t.l.Sub(b.l)
			t.s.Sub(b.s)
			t.c.Sub(b.c)
			for k := range m {
				if !(*mb)[k] {
					n[k] = true
				}
			}
		}
		m = n
	case "set":
		t.l.Set(op.Bit)
		t.s.Set(op.Bit)
		t.c.Set(op.Bit)
		m = m.copy()
		m[op.Bit] = true
	case "unset":
		t.l.Unset(op.Bit)
		t.s.Unset(op.Bit)
		t.c.Unset(op.Bit)
		m = m.copy()
		delete(m, op.Bit)
	case "flip":
		t.l.Flip(op.Bit)
		t.s.Flip(op.Bit)
		t.c.Flip(op.Bit)
		m = m.copy()
		if m[op.Bit] {
			delete(m, op.Bit)
		} else {
			m[op.Bit] = true
		}
	case "inject":
		t.l.Inject(op.Bit, op.Val)
		t.s.Inject(op.Bit, op.Val)
		t.c.Inject(op.Bit, op.Val)
		m = m.inject(op.Bit, op.Val)
	case "extract":
		var want bool
		m, want = m.extract(op.Bit)
		if got := t.s.Extract(op.Bit); got != want {
			return m, fmt.Sprintf("ShortBitmask.Extract(%d)=%v, model %v", op.Bit, got, want)
		}
		if got := t.c.Extract(op.Bit); got != want {
			return m, fmt.Sprintf("ConnectedBitmask.Extract(%d)=%v, model %v", op.Bit, got, want)
		}
		// LongBitmask has no Extract: rebuild it from the model
		t.l = c17from(m.bits()).l
	case "or", "and", "xor", "sub":
		o := c17from(op.Arg)
		om := c17model{}
		for _, b := range op.Arg {
			om[b] = true
		}
		n := c17model{}
		switch op.Op {
		case "or":
			t.l.Or(o.l)
			t.s.Or(o.s)
			t.c.Or(o.c)
			for k := range m {
				n[k] = true
			}
			for k := range om {
				n[k] = true
			}
		case "and":
			t.l.And(o.l)
			t.s.And(o.s)
			t.c.And(o.c)
			for k := range m {
				if om[k] {
					n[k] = true
				}
			}
		case "xor":
			t.l.Xor(o.l)
			t.s.Xor(o.s)
			t.c.Xor(o.c)
			for k := range m {
				if !om[k] {
					n[k] = true
				}
			}
			for k := range om {
				if !m[k] {
					n[k] = true
				}
			}
		case "sub":
			t.l.Sub(o.l)
			t.s.Sub(o.s)
			t.c.Sub(o.c)
			for k := range m {
				if !om[k] {
					n[k] = true
				}
			}
		}
		m = n
	case "copy":
		t.l = t.l.Copy()
		t.s = t.s.Copy()
		t.c = t.c.Copy()
	case "shrink":
		t.l.Shrink()
		t.s.Shrink()
	}
	return m, ""
}

func TestC17Standin(t *testing.T) {
	maxLen, _ := strconv.Atoi(os.Getenv("C17_LEN"))
	if maxLen == 0 {
		maxLen = 3
	}
	nRandom, _ := strconv.Atoi(os.Getenv("C17_RANDOM"))
	if nRandom == 0 {
		nRandom = 20000
	}
	seed, _ := strconv.ParseInt(os.Getenv("STANDIN_SEED"), 10, 64)
	bits := []uint{0, 1, 2, 62, 63, 64, 65, 127, 128, 129}
	args := [][]uint{{}, {0}, {63, 64}, {1, 2}, {0, 1, 2, 3}, {64, 65, 66}, {3, 5}, {62, 63, 64, 65}, {128}, {2, 3, 4, 62}}
	var ops []c17op
	for _, b := range bits {
		ops = append(ops, c17op{Op: "set", Bit: b}, c17op{Op: "unset", Bit: b}, c17op{Op: "flip", Bit: b},
			c17op{Op: "inject", Bit: b, Val: true}, c17op{Op: "inject", Bit: b, Val: false}, c17op{Op: "extract", Bit: b})
	}
	for _, a := range args {
		for _, o := range []string{"or", "and", "xor", "sub"} {
			ops = append(ops, c17op{Op: o, Arg: a})
		}
	}
	ops = append(ops, c17op{Op: "copy"}, c17op{Op: "shrink"})
	for _, b := range []uint{1, 5, 63, 64, 130} {
		ops = append(ops, c17op{Op: "setB", Bit: b})
	}
	for _, o := range []string{"orB", "andB", "xorB", "subB"} {
		ops = append(ops, c17op{Op: o})
	}
	type failure struct {
		Class  string  `json:"class"`
		Input  string  `json:"input"`
		Detail string  `json:"detail"`
		Seq    []c17op `json:"sequence"`
	}
	var failures []failure
	classes := map[string]int{}
	evals := 0
	var samples [][]c17op
	runSeq := func(seq []c17op) {
		evals++
		tr := c17triple{}
		m := c17model{}
		tb := c17triple{}
		mb := c17model{}
		for i, op := range seq {
			var d string
			m, d = c17apply(&tr, m, op, &tb, &mb)
			if d == "" {
				d = c17check(&tr, m, 200)
			}
			if d == "" {
				if d = c17check(&tb, mb, 200); d != "" {
					d = "the other operand changed: " + d
				}
			}
			if d != "" {
				cl := op.Op
				classes[cl]++
				if classes[cl] <= 5 {
					b, _ := json.Marshal(seq[:i+1])
					failures = append(failures, failure{Class: cl, Input: string(b), Detail: fmt.Sprintf("after step %d (%s): %s", i, op.Op, d), Seq: seq[:i+1]})
				}
				return
			}
		}
	}
	var rec func(seq []c17op)
	rec = func(seq []c17op) {
		if len(seq) > 0 {
			runSeq(seq)
		}
		if len(seq) == maxLen {
			return
		}
		for _, op := range ops {
			rec(append(append([]c17op(nil), seq...), op))
		}
	}
	rec(nil)
	rng := rand.New(rand.NewSource(seed + 99))
	for i := 0; i < nRandom; i++ {
		n := maxLen + 1 + rng.Intn(6)
		seq := make([]c17op, n)
		for j := range seq {
			seq[j] = ops[rng.Intn(len(ops))]
		}
		if len(samples) < 3 {
			samples = append(samples, seq)
		}
		runSeq(seq)
	}
	out := map[string]any{"evaluations": evals, "nontrivial": evals - len(ops), "samples": samples, "failures": failures, "ops": len(ops), "max_exhaustive_len": maxLen, "random_sequences": nRandom}
	if p := os.Getenv("C17_OUT"); p != "" {
		data, _ := json.MarshalIndent(out, "", " ")
		os.WriteFile(p, data, 0o644)
	}
	for i, f := range failures {
		if i < 10 {
			t.Log(f.Class, f.Detail, f.Input)
		}
	}
	t.Logf("evaluations=%d failures=%d classes=%v", evals, len(failures), classes)
}
