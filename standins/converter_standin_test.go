package manager

// Bounded stand-in for C16 (labelled bounded, never counted as proved): converter output always belongs to the
// stream's current data. A real converter process is used (a small python3 script written by the harness into
// the converter directory: it answers every stream with the same chunks, contents in upper case). Generated
// histories of imports (new conversations, more data for old ones), tags, attaching and detaching the converter;
// after every call the service is left alone until it is quiet, and then
//   - for every stream, the converter output shown for it is the upper-cased current payload, chunk by chunk
//     (an import that extended a stream must have dropped the old output);
//   - a search in the converter's output finds every stream that is matched by a tag the converter is attached
//     to and whose current upper-cased payload contains the text (every such stream eventually has output), and
//     finds no stream whose current upper-cased payload does not contain it (no stale output is searched).
// The interleaving of converter and import jobs is whatever the scheduler produces. Injected with `go test -overlay`.

import (
	"context"
	"encoding/json"
	"fmt"
	"math/rand"
	"os"
	"path"
	"sort"
	"strconv"
	"strings"
	"testing"
	"time"

	"github.com/spq/pkappa2/internal/query"
)

const c16Script = `#!/usr/bin/env python3
import sys, json, base64
while True:
    line = sys.stdin.buffer.readline()
    if not line:
        break
    json.loads(line)
    chunks = []
    while True:
        l = sys.stdin.buffer.readline().strip()
        if not l:
            break
        chunks.append(json.loads(l))
    for c in chunks:
        c["Content"] = base64.b64encode(base64.b64decode(c["Content"]).upper()).decode()
        sys.stdout.write(json.dumps(c) + "\n")
    sys.stdout.write("\n{}\n")
    sys.stdout.flush()
`

func c16Quiet(mgr *Manager, limit time.Duration) bool {
	deadline := time.Now().Add(limit)
	quietFor := 0
	for time.Now().Before(deadline) && quietFor < 5 {
		st := mgr.Status()
		busy := st.ImportJobCount != 0 || st.TaggingJobRunning || st.MergeJobRunning || st.ConverterJobRunning
		for _, ti := range mgr.ListTags() {
			if ti.UncertainCount != 0 {
				busy = true
			}
		}
		// conversions that are queued but not started yet
		pending := make(chan bool)
		mgr.jobs <- func() {
			p := false
			for _, s := range mgr.streamsToConvert {
				if s != nil && !s.IsZero() {
					p = true
				}
			}
			pending <- p
		}
		if <-pending {
			busy = true
		}
		if busy {
			quietFor = 0
		} else {
			quietFor++
		}
		time.Sleep(10 * time.Millisecond)
	}
	return quietFor >= 5
}

func c16Search(v *View, qs string) ([]uint64, error) {
	q, err := query.Parse(qs)
	if err != nil {
		return nil, err
	}
	ctx, cancel := context.WithTimeout(context.Background(), 20*time.Second)
	defer cancel()
	var ids []uint64
	_, _, _, err = v.SearchStreams(ctx, q, func(sc StreamContext) error {
		ids = append(ids, sc.Stream().ID())
		return nil
	}, Limit(1000, 0))
	sort.Slice(ids, func(i, j int) bool { return ids[i] < ids[j] })
	return ids, err
}

func TestC16Standin(t *testing.T) {
	nHist, _ := strconv.Atoi(os.Getenv("C16_HISTORIES"))
	if nHist == 0 {
		nHist = 8
	}
	histLen, _ := strconv.Atoi(os.Getenv("C16_LEN"))
	if histLen == 0 {
		histLen = 14
	}
	seed, _ := strconv.ParseInt(os.Getenv("STANDIN_SEED"), 10, 64)
	rng := rand.New(rand.NewSource(seed + 1616))
	type failure struct {
		Class  string `json:"class"`
		Input  string `json:"input"`
		Detail string `json:"detail"`
	}
	var failures []failure
	classes := map[string]int{}
	evals, nontrivial := 0, 0
	var samples []string
	fail := func(class, input, detail string) {
		classes[class]++
		if classes[class] <= 5 {
			failures = append(failures, failure{class, input, detail})
		}
	}
	words := []string{"foo", "bar", "baz", "qux"}
	tagDefs := map[string]string{"service/s": "sport:9001", "tag/t": "cport:100:102", "tag/u": "sport:80", "tag/d": "data.up:FOO"}
	for h := 0; h < nHist; h++ {
		d := makeTempdirs(t)
		if err := os.WriteFile(path.Join(d.converter, "up"), []byte(c16Script), 0o775); err != nil {
			t.Fatal(err)
		}
		mgr := makeManager(t, d)
		if cs := mgr.ListConverters(); len(cs) != 1 {
			t.Fatalf("converter not installed: %v", cs)
		}
		var ops []string
		nConv := 0
		attached := map[string]bool{} // tags the converter is attached to
		tags := map[string]bool{}
		resetSinceTagD := false // the converter's cache was reset (last user detached) while tag/d existed
		imp := func(pk []pcapOverIPPacket) {
			pcaps, err := writePcaps(mgr.PcapDir, pk)
			if err != nil {
				t.Fatalf("writePcaps: %v", err)
			}
			events, closer := mgr.Listen()
			mgr.ImportPcaps(pcaps)
			waitForEvent(t, events, closer, "pcapProcessed")
		}
		tick := 0
		for step := 0; step < histLen; step++ {
			switch r := rng.Intn(10); {
			case r < 3:
				port := []string{"9001", "80"}[rng.Intn(2)]
				tick++
				imp([]pcapOverIPPacket{makeUDPPacket(fmt.Sprintf("9.0.%d.%d:%d", h%250, nConv, 100+nConv), "2.3.4.5:"+port, t1.Add(time.Duration(tick)*time.Second), words[rng.Intn(len(words))])})
				ops = append(ops, fmt.Sprintf("import conversation %d (port %s)", nConv, port))
				nConv++
			case r < 6:
				if nConv == 0 {
					continue
				}
				// more data for an old conversation: its converter output has to be produced again
				k := rng.Intn(nConv)
				tick++
				var pk []pcapOverIPPacket
				for _, port := range []string{"9001", "80"} {
					pk = append(pk, makeUDPPacket(fmt.Sprintf("9.0.%d.%d:%d", h%250, k, 100+k), "2.3.4.5:"+port, t1.Add(time.Duration(tick)*time.Second), words[rng.Intn(len(words))]))
				}
				// only one of the two server ports belongs to conversation k; the other packet opens a new conversation
				// with the same client endpoint - both are fine for the comparison below, which reads what is there
				if rng.Intn(3) == 0 {
					// a capture that is older than everything imported so far: the stream is rebuilt with the
					// older datagram in front (reset), its converter output has to be produced again as well
					imp([]pcapOverIPPacket{makeUDPPacket(fmt.Sprintf("9.0.%d.%d:%d", h%250, k, 100+k), "2.3.4.5:9001", t1.Add(-time.Duration(tick)*time.Second), words[rng.Intn(len(words))])})
					ops = append(ops, fmt.Sprintf("import older data for client %d", k))
					break
				}
				imp(pk[:1+rng.Intn(2)])
				ops = append(ops, fmt.Sprintf("import more data for client %d", k))
			case r < 8:
				n := []string{"service/s", "tag/t", "tag/u", "tag/d"}[rng.Intn(4)]
				if n == "tag/d" && tags[n] {
					// a tag that filters on the converter's output: it only exists, nothing is attached to it
					continue
				}
				if !tags[n] {
					if mgr.AddTag(n, "red", tagDefs[n]) == nil {
						tags[n] = true
						ops = append(ops, fmt.Sprintf("AddTag(%s,%q)", n, tagDefs[n]))
					}
					continue
				}
				set := []string{"up"}
				if attached[n] {
					set = []string{}
				}
				if mgr.UpdateTag(n, UpdateTagOperationSetConverter(set)) == nil {
					attached[n] = !attached[n]
					if anyOn := attached["service/s"] || attached["tag/t"] || attached["tag/u"]; !anyOn && tags["tag/d"] {
						resetSinceTagD = true
					}
					ops = append(ops, fmt.Sprintf("SetConverter(%s,%v)", n, set))
				}
			default:
				time.Sleep(time.Duration(rng.Intn(20)) * time.Millisecond)
				ops = append(ops, "pause")
			}
			hist := strings.Join(ops, "; ")
			if !c16Quiet(mgr, 40*time.Second) {
				fail("never-quiet", hist, "after 40 s a job is still running or conversions are still queued")
				break
			}
			evals++
			v := mgr.GetView()
			// current payload per stream, upper-cased
			type sinfo struct {
				chunks []string
				tagged bool
			}
			streams := map[uint64]*sinfo{}
			ctx, cancel := context.WithTimeout(context.Background(), 20*time.Second)
			err := v.AllStreams(ctx, func(sc StreamContext) error {
				plain, err := sc.Data("")
				if err != nil {
					return err
				}
				si := &sinfo{}
				lastDir := -1
				for _, c := range plain {
					// the service joins consecutive converter chunks of one direction
					if int(c.Direction) == lastDir {
						si.chunks[len(si.chunks)-1] += strings.ToUpper(string(c.Content))
						continue
					}
					lastDir = int(c.Direction)
					si.chunks = append(si.chunks, fmt.Sprintf("%d:%s", c.Direction, strings.ToUpper(string(c.Content))))
				}
				for n := range attached {
					if attached[n] {
						if ok, err := sc.HasTag(n); err == nil && ok {
							si.tagged = true
						}
					}
				}
				streams[sc.Stream().ID()] = si
				return nil
			}, PrefetchAllTags())
			cancel()
			if err != nil {
				fail("read-error", hist, err.Error())
				v.Release()
				continue
			}
			// searches in the converter's output come first (showing the output below converts on demand)
			for _, w := range words {
				W := strings.ToUpper(w)
				got, err := c16Search(&v, "data.up:"+W)
				if err != nil {
					fail("read-error", hist, fmt.Sprintf("search data.up:%s: %v", W, err))
					continue
				}
				gotSet := map[uint64]bool{}
				for _, id := range got {
					gotSet[id] = true
				}
				for id, si := range streams {
					has := strings.Contains(strings.Join(si.chunks, "\n"), W)
					if si.tagged && has && !gotSet[id] {
						fail("output-missing", hist, fmt.Sprintf("stream %d is matched by a tag with the converter attached and its payload contains %q, but the search data.up:%s does not find it (found %v)", id, w, W, got))
					}
					if !has && gotSet[id] {
						fail("stale-output", hist, fmt.Sprintf("the search data.up:%s finds stream %d, whose current payload is %v", W, id, si.chunks))
					}
				}
			}
			// a tag that filters on the converter's output is decided on the output that exists now
			if tags["tag/d"] {
				a, err1 := c16Search(&v, "tag:d")
				b, err2 := c16Search(&v, tagDefs["tag/d"])
				if err1 != nil || err2 != nil {
					fail("read-error", hist, fmt.Sprintf("search tag:d: %v %v", err1, err2))
				} else if fmt.Sprint(a) != fmt.Sprint(b) {
					// known finding, classified apart per failure: since the tag exists the converter was detached from
					// the last tag that used it (which resets its cache) and the tag only keeps streams - nothing is missing
					class := "tag-on-old-output"
					sel := map[uint64]bool{}
					for _, id := range b {
						sel[id] = true
					}
					dec := map[uint64]bool{}
					for _, id := range a {
						dec[id] = true
					}
					missing := false
					for id := range sel {
						if !dec[id] {
							missing = true
						}
					}
					if resetSinceTagD && !missing {
						class = "tag-on-reset-output"
					}
					fail(class, hist, fmt.Sprintf("the service is quiet, tag/d := %q is decided for %v, its definition selects %v", tagDefs["tag/d"], a, b))
				}
			}
			// the output shown for every stream is the output for its current payload
			ctx, cancel = context.WithTimeout(context.Background(), 20*time.Second)
			last := step == histLen-1
			err = v.AllStreams(ctx, func(sc StreamContext) error {
				if !streams[sc.Stream().ID()].tagged && !last {
					// asking for the output converts on demand and caches the result; for streams no tag asks
					// the converter for, that is only done at the end (otherwise the searches above could not
					// tell whether the service produced the output by itself)
					return nil
				}
				conv, err := sc.Data("up")
				if err != nil {
					return fmt.Errorf("converter output of stream %d: %w", sc.Stream().ID(), err)
				}
				var got []string
				for _, c := range conv {
					got = append(got, fmt.Sprintf("%d:%s", c.Direction, string(c.Content)))
				}
				want := streams[sc.Stream().ID()].chunks
				if strings.Join(got, "|") != strings.Join(want, "|") {
					fail("stale-output", hist, fmt.Sprintf("stream %d: converter output %v, the converter's output for its current payload is %v", sc.Stream().ID(), got, want))
				} else if len(want) > 0 {
					nontrivial++
				}
				return nil
			})
			cancel()
			if err != nil {
				fail("read-error", hist, err.Error())
			}
			v.Release()
		}
		if len(samples) < 3 {
			samples = append(samples, strings.Join(ops, "; "))
		}
		c16Quiet(mgr, 10*time.Second)
		mgr.Close()
	}
	out := map[string]any{"evaluations": evals, "nontrivial": nontrivial, "samples": samples, "failures": failures, "histories": nHist, "history_length": histLen, "classes": classes}
	if p := os.Getenv("C16_OUT"); p != "" {
		data, _ := json.MarshalIndent(out, "", " ")
		os.WriteFile(p, data, 0o644)
	}
	for i, f := range failures {
		if i < 8 {
			t.Log(f.Class, "|", f.Detail, "|", f.Input)
		}
	}
	t.Logf("evaluations=%d nontrivial=%d failures=%v", evals, nontrivial, classes)
}
