package manager

// Bounded stand-in for C12 (labelled bounded, never counted as proved): state survives a restart and a kill.
// A kill is simulated by copying the data directories at a generated moment of a generated history and
// starting a second service on the copy. The copy is taken inside the service goroutine, so it sees the
// directories as they are between two handlers (state file complete, superseded index files either both
// there or replaced) while the background jobs - import, merge, tagging - keep writing their files: an index
// file that is being written at that moment is copied half-written. (Crash points inside the handlers
// themselves are not generated, except that the copy may get a half-written index file and a half-written
// newer state file next to the complete ones.) The second service must start, show every tag acknowledged before the copy with its definition
// and colour, show every stream of every import reported processed before the copy under its old id, and once
// it is quiet every tag's members must be what its definition selects. Injected with `go test -overlay`.

import (
	"context"
	"encoding/json"
	"fmt"
	"io"
	"math/rand"
	"os"
	"path/filepath"
	"sort"
	"strconv"
	"strings"
	"testing"
	"time"

	"github.com/spq/pkappa2/internal/query"
)

func c12CopyDir(src, dst string) error {
	if err := os.MkdirAll(dst, 0o755); err != nil {
		return err
	}
	ents, err := os.ReadDir(src)
	if err != nil {
		return err
	}
	for _, e := range ents {
		if e.IsDir() {
			continue
		}
		in, err := os.Open(filepath.Join(src, e.Name()))
		if err != nil {
			continue // removed since the listing: as if the kill came after the removal
		}
		mode := os.FileMode(0o644)
		if fi, err := in.Stat(); err == nil {
			mode = fi.Mode().Perm()
		}
		out, err := os.OpenFile(filepath.Join(dst, e.Name()), os.O_CREATE|os.O_WRONLY|os.O_TRUNC, mode)
		if err != nil {
			in.Close()
			return err
		}
		_, err = io.Copy(out, in)
		in.Close()
		out.Close()
		if err != nil {
			return err
		}
	}
	return nil
}

func c12Streams(mgr *Manager) (map[uint64]string, error) {
	v := mgr.GetView()
	defer v.Release()
	out := map[uint64]string{}
	ctx, cancel := context.WithTimeout(context.Background(), 20*time.Second)
	defer cancel()
	err := v.AllStreams(ctx, func(sc StreamContext) error {
		st := sc.Stream()
		d, err := sc.Data("")
		if err != nil {
			return err
		}
		n := 0
		for _, c := range d {
			n += len(c.Content)
		}
		out[st.ID()] = fmt.Sprintf("%s:%d", st.ClientHostIP(), st.ClientPort)
		_ = n
		return nil
	})
	return out, err
}

// c12Quiet waits until no job runs and no tag reports undecided streams, five polls in a row.
func c12Quiet(mgr *Manager, limit time.Duration) bool {
	deadline := time.Now().Add(limit)
	quietFor := 0
	for time.Now().Before(deadline) && quietFor < 5 {
		st := mgr.Status()
		busy := st.ImportJobCount != 0 || st.TaggingJobRunning || st.MergeJobRunning || st.ConverterJobRunning
		for _, ti := range mgr.ListTags() {
			if ti.UncertainCount != 0 {
				busy = true
			}
		}
		if busy {
			quietFor = 0
		} else {
			quietFor++
		}
		time.Sleep(10 * time.Millisecond)
	}
	return quietFor >= 5
}

func c12Search(mgr *Manager, qs string) ([]string, error) {
	q, err := query.Parse(qs)
	if err != nil {
		return nil, err
	}
	v := mgr.GetView()
	defer v.Release()
	ctx, cancel := context.WithTimeout(context.Background(), 20*time.Second)
	defer cancel()
	var ids []string
	_, _, _, err = v.SearchStreams(ctx, q, func(sc StreamContext) error {
		ids = append(ids, strconv.FormatUint(sc.Stream().ID(), 10))
		return nil
	}, Limit(1000, 0))
	sort.Strings(ids)
	return ids, err
}

type c12Tag struct{ def, color, conv string } // conv: the attached converters, joined

// the converter installed in the converter directory: every chunk in upper case
const c12Script = `#!/usr/bin/env python3
import sys, json, base64
while True:
    line = sys.stdin.buffer.readline()
    if not line:
        break
    json.loads(line)
    chunks = []
    while True:
        l = sys.stdin.buffer.readline().strip()
        if not l:
            break
        chunks.append(json.loads(l))
    for c in chunks:
        c["Content"] = base64.b64encode(base64.b64decode(c["Content"]).upper()).decode()
        sys.stdout.write(json.dumps(c) + "\n")
    sys.stdout.write("\n{}\n")
    sys.stdout.flush()
`

func TestC12Standin(t *testing.T) {
	nHist, _ := strconv.Atoi(os.Getenv("C12_HISTORIES"))
	if nHist == 0 {
		nHist = 15
	}
	histLen, _ := strconv.Atoi(os.Getenv("C12_LEN"))
	if histLen == 0 {
		histLen = 24
	}
	seed, _ := strconv.ParseInt(os.Getenv("STANDIN_SEED"), 10, 64)
	rng := rand.New(rand.NewSource(seed + 1212))
	type failure struct {
		Class  string `json:"class"`
		Input  string `json:"input"`
		Detail string `json:"detail"`
	}
	var failures []failure
	classes := map[string]int{}
	evals, nontrivial := 0, 0
	var samples []string
	fail := func(class, input, detail string) {
		classes[class]++
		if classes[class] <= 5 {
			failures = append(failures, failure{class, input, detail})
		}
	}
	defs := []string{"cport:1:", "sport:9001", "cdata:foo", "id:0:3", "-cport:7", "sport:80"}
	for h := 0; h < nHist; h++ {
		d := makeTempdirs(t)
		if err := os.WriteFile(filepath.Join(d.converter, "up"), []byte(c12Script), 0o775); err != nil {
			t.Fatal(err)
		}
		mgr := makeManager(t, d)
		var ops []string
		tags := map[string]c12Tag{}
		known := map[uint64]string{} // streams of imports reported processed
		endpoints := map[string]bool{}
		hooks := map[string]bool{}
		nImports := 0
		if h == 0 {
			// the first history starts with a tag that has the converter attached and then gets a definition with a
			// payload filter (if the service accepts that, the attachment has to survive a restart like any other)
			if mgr.AddTag("tag/a", "red", "sport:80") == nil {
				tags["tag/a"] = c12Tag{"sport:80", "red", ""}
				ops = append(ops, `AddTag(tag/a,"sport:80",red)`)
				if mgr.UpdateTag("tag/a", UpdateTagOperationSetConverter([]string{"up"})) == nil {
					tags["tag/a"] = c12Tag{"sport:80", "red", "up"}
					ops = append(ops, "SetConverter(tag/a,[up])")
				}
				if mgr.UpdateTag("tag/a", UpdateTagOperationUpdateQuery("cdata:foo")) == nil {
					tags["tag/a"] = c12Tag{"cdata:foo", "red", tags["tag/a"].conv}
					ops = append(ops, `UpdateQuery(tag/a,"cdata:foo")`)
				}
			}
		}
		for step := 0; step < histLen; step++ {
			switch r := rng.Intn(10); {
			case r < 4:
				pk := []pcapOverIPPacket{makeUDPPacket(fmt.Sprintf("9.0.%d.%d:%d", h%250, nImports, 100+nImports), "2.3.4.5:9001", t1.Add(time.Second*time.Duration(nImports)), "foo")}
				if rng.Intn(2) == 0 {
					pk = append(pk, makeUDPPacket(fmt.Sprintf("9.1.%d.%d:%d", h%250, nImports, 100+nImports), "2.3.4.5:80", t1.Add(time.Second*time.Duration(nImports)+time.Millisecond), "bar"))
				}
				if nImports > 0 && rng.Intn(3) == 0 {
					o := rng.Intn(nImports)
					pk = append(pk, makeUDPPacket(fmt.Sprintf("9.0.%d.%d:%d", h%250, o, 100+o), "2.3.4.5:9001", t1.Add(time.Second*time.Duration(nImports)+2*time.Millisecond), "baz"))
				}
				pcaps, err := writePcaps(mgr.PcapDir, pk)
				if err != nil {
					t.Fatalf("writePcaps: %v", err)
				}
				nImports++
				if rng.Intn(2) == 0 {
					// wait until it is reported processed: its streams are then part of what has to survive
					events, closer := mgr.Listen()
					mgr.ImportPcaps(pcaps)
					waitForEvent(t, events, closer, "pcapProcessed")
					s, err := c12Streams(mgr)
					if err != nil {
						fail("read-error", strings.Join(ops, "; "), err.Error())
					} else {
						known = s
					}
					ops = append(ops, fmt.Sprintf("import#%d(%d packets), processed", nImports, len(pk)))
				} else {
					mgr.ImportPcaps(pcaps)
					ops = append(ops, fmt.Sprintf("import#%d(%d packets), not awaited", nImports, len(pk)))
				}
			case r < 6:
				n := []string{"tag/a", "tag/b", "service/s"}[rng.Intn(3)]
				def := defs[rng.Intn(len(defs))]
				col := []string{"red", "blue"}[rng.Intn(2)]
				if _, ok := tags[n]; !ok {
					if mgr.AddTag(n, col, def) == nil {
						tags[n] = c12Tag{def, col, ""}
						ops = append(ops, fmt.Sprintf("AddTag(%s,%q,%s)", n, def, col))
					}
				} else if rng.Intn(4) == 0 {
					// attach or detach the converter
					set, conv := []string{"up"}, "up"
					if tags[n].conv != "" {
						set, conv = []string{}, ""
					}
					if mgr.UpdateTag(n, UpdateTagOperationSetConverter(set)) == nil {
						tags[n] = c12Tag{tags[n].def, tags[n].color, conv}
						ops = append(ops, fmt.Sprintf("SetConverter(%s,%v)", n, set))
					}
				} else if rng.Intn(4) == 0 {
					if mgr.DelTag(n) == nil {
						delete(tags, n)
						ops = append(ops, fmt.Sprintf("DelTag(%s)", n))
					}
				} else if mgr.UpdateTag(n, UpdateTagOperationUpdateQuery(def)) == nil {
					tags[n] = c12Tag{def, tags[n].color, tags[n].conv}
					ops = append(ops, fmt.Sprintf("UpdateQuery(%s,%q)", n, def))
				}
			case r < 7:
				switch rng.Intn(3) {
				case 0:
					time.Sleep(time.Duration(rng.Intn(30)) * time.Millisecond)
					ops = append(ops, "pause")
				case 1:
					// a capture endpoint (nothing listens there: the service keeps trying to connect)
					a := fmt.Sprintf("127.0.0.1:%d", 1+rng.Intn(2))
					if !endpoints[a] {
						if mgr.AddPcapOverIPEndpoint(a) == nil {
							endpoints[a] = true
							ops = append(ops, "AddEndpoint("+a+")")
						}
					} else if mgr.DelPcapOverIPEndpoint(a) == nil {
						delete(endpoints, a)
						ops = append(ops, "DelEndpoint("+a+")")
					}
				default:
					u := fmt.Sprintf("http://127.0.0.1:1/hook%d", rng.Intn(2))
					if !hooks[u] {
						if mgr.AddPcapProcessorWebhook(u) == nil {
							hooks[u] = true
							ops = append(ops, "AddWebhook("+u+")")
						}
					} else if mgr.DelPcapProcessorWebhook(u) == nil {
						delete(hooks, u)
						ops = append(ops, "DelWebhook("+u+")")
					}
				}
			default:
				// the kill: copy the directories between two handlers, then start a second service on the copy
				evals++
				base := t.TempDir()
				cd := dirs{base: base, pcap: base + "/pcap/", index: base + "/index/", state: base + "/state/", snapshot: base + "/snapshot/", converter: base + "/converter/", watch: base + "/watch/"}
				copied := make(chan error)
				mgr.jobs <- func() {
					var err error
					for _, p := range [][2]string{{d.state, cd.state}, {d.snapshot, cd.snapshot}, {d.index, cd.index}, {d.pcap, cd.pcap}, {d.converter, cd.converter}, {d.watch, cd.watch}} {
						if e := c12CopyDir(p[0], p[1]); e != nil && err == nil {
							err = e
						}
					}
					copied <- err
				}
				if err := <-copied; err != nil {
					t.Fatalf("copy: %v", err)
				}
				// what a kill in the middle of a write leaves behind, added to the copy: an index file that is still
				// being written (a prefix of a complete one, the magic - written last - still missing) under a newer
				// name, and a newer state file that was only partly written (the older one is still there)
				torn := ""
				newer := time.Now().Add(time.Hour).Format("2006-01-02_150405.000")
				if idx, _ := filepath.Glob(cd.index + "*.idx"); len(idx) > 0 && rng.Intn(2) == 0 {
					data, err := os.ReadFile(idx[rng.Intn(len(idx))])
					if err == nil && len(data) > 16 {
						for i := 0; i < 16; i++ {
							data[i] = 0
						}
						os.WriteFile(cd.index+newer+".0.idx", data[:16+rng.Intn(len(data)-16)], 0o644)
						torn += " +half-written index file"
					}
				}
				if sts, _ := filepath.Glob(cd.state + "*.state.json"); len(sts) > 0 && rng.Intn(2) == 0 {
					sort.Strings(sts)
					data, err := os.ReadFile(sts[len(sts)-1])
					if err == nil && len(data) > 2 {
						os.WriteFile(cd.state+newer+".0.state.json", data[:1+rng.Intn(len(data)-2)], 0o644)
						torn += " +half-written state file"
					}
				}
				ops = append(ops, "kill+restart on a copy"+torn)
				hist := strings.Join(ops, "; ")
				wantTags := map[string]c12Tag{}
				for n, tg := range tags {
					wantTags[n] = tg
				}
				wantEndpoints, wantHooks := map[string]bool{}, map[string]bool{}
				for a := range endpoints {
					wantEndpoints[a] = true
				}
				for u := range hooks {
					wantHooks[u] = true
				}
				wantStreams := map[uint64]string{}
				for id, ep := range known {
					wantStreams[id] = ep
				}
				type started struct {
					m   *Manager
					err error
					pan string
				}
				ch := make(chan started, 1)
				go func() {
					defer func() {
						if r := recover(); r != nil {
							ch <- started{pan: fmt.Sprint(r)}
						}
					}()
					m, err := New(cd.pcap, cd.index, cd.snapshot, cd.state, cd.converter, cd.watch)
					ch <- started{m: m, err: err}
				}()
				var st started
				select {
				case st = <-ch:
				case <-time.After(30 * time.Second):
					fail("restart-hangs", hist, "New did not return within 30 s on the copied directories")
					continue
				}
				if st.pan != "" || st.err != nil {
					fail("restart-fails", hist, fmt.Sprintf("New on the copied directories: error %v panic %q", st.err, st.pan))
					continue
				}
				m2 := st.m
				nontrivial++
				// tags acknowledged before the kill
				got := map[string]c12Tag{}
				for _, ti := range m2.ListTags() {
					got[ti.Name] = c12Tag{ti.Definition, ti.Color, strings.Join(ti.Converters, ",")}
				}
				var names []string
				for n := range wantTags {
					names = append(names, n)
				}
				sort.Strings(names)
				for _, n := range names {
					if g, ok := got[n]; !ok {
						fail("tag-lost", hist, fmt.Sprintf("acknowledged tag %s := %q is gone after the restart (tags: %v)", n, wantTags[n].def, got))
					} else if g != wantTags[n] {
						fail("tag-lost", hist, fmt.Sprintf("tag %s is %q/%s converters [%s] after the restart, acknowledged was %q/%s converters [%s]", n, g.def, g.color, g.conv, wantTags[n].def, wantTags[n].color, wantTags[n].conv))
					}
				}
				for n := range got {
					if _, ok := wantTags[n]; !ok {
						fail("tag-lost", hist, fmt.Sprintf("tag %s exists after the restart although it was deleted (or never acknowledged)", n))
					}
				}
				// streams of processed imports, under their old ids
				s2, err := c12Streams(m2)
				if err != nil {
					fail("read-error", hist, fmt.Sprintf("after the restart: %v", err))
				} else {
					for id, ep := range wantStreams {
						if g, ok := s2[id]; !ok {
							fail("stream-lost", hist, fmt.Sprintf("stream %d (client %s) of a processed import is missing after the restart", id, ep))
						} else if g != ep {
							fail("stream-lost", hist, fmt.Sprintf("stream %d was a conversation of client %s and is one of %s after the restart", id, ep, g))
						}
					}
				}
				// tags converge to what their definitions select
				if !c12Quiet(m2, 30*time.Second) {
					fail("never-quiet", hist, "the restarted service does not settle within 30 s")
				} else {
					for _, n := range names {
						typ, sub, _ := strings.Cut(n, "/")
						a, err1 := c12Search(m2, typ+":"+sub)
						b, err2 := c12Search(m2, wantTags[n].def)
						if err1 != nil || err2 != nil {
							fail("read-error", hist, fmt.Sprintf("search after the restart: %v %v", err1, err2))
						} else if strings.Join(a, " ") != strings.Join(b, " ") {
							fail("tags-not-converged", hist, fmt.Sprintf("after the restart %s := %q is decided for [%s], its definition selects [%s]", n, wantTags[n].def, strings.Join(a, " "), strings.Join(b, " ")))
						}
					}
				}
				// endpoints and webhooks acknowledged before the kill: after this restart and after one more
				settings := func(m *Manager, when string) {
					var ge, gh, we, wh []string
					for _, e := range m.ListPcapOverIPEndpoints() {
						ge = append(ge, e.Address)
					}
					gh = append(gh, m.ListPcapProcessorWebhooks()...)
					for a := range wantEndpoints {
						we = append(we, a)
					}
					for u := range wantHooks {
						wh = append(wh, u)
					}
					sort.Strings(ge)
					sort.Strings(gh)
					sort.Strings(we)
					sort.Strings(wh)
					if strings.Join(ge, " ") != strings.Join(we, " ") {
						fail("endpoint-lost", hist, fmt.Sprintf("%s the capture endpoints are %v, acknowledged were %v", when, ge, we))
					}
					if strings.Join(gh, " ") != strings.Join(wh, " ") {
						fail("setting-lost", hist, fmt.Sprintf("%s the webhooks are %v, acknowledged were %v", when, gh, wh))
					}
				}
				settings(m2, "after the restart")
				m2.Close()
				m3, err := New(cd.pcap, cd.index, cd.snapshot, cd.state, cd.converter, cd.watch)
				if err != nil {
					fail("restart-fails", hist, fmt.Sprintf("second restart on the copied directories: %v", err))
					continue
				}
				settings(m3, "after a second restart")
				got = map[string]c12Tag{}
				for _, ti := range m3.ListTags() {
					got[ti.Name] = c12Tag{ti.Definition, ti.Color, strings.Join(ti.Converters, ",")}
				}
				for _, n := range names {
					if g, ok := got[n]; !ok || g != wantTags[n] {
						fail("tag-lost", hist, fmt.Sprintf("after a second restart tag %s is %q/%s converters [%s] (present=%v), acknowledged was %q/%s converters [%s]", n, g.def, g.color, g.conv, ok, wantTags[n].def, wantTags[n].color, wantTags[n].conv))
					}
				}
				c12Quiet(m3, 10*time.Second)
				m3.Close()
			}
		}
		if len(samples) < 3 {
			samples = append(samples, strings.Join(ops, "; "))
		}
		c12Quiet(mgr, 20*time.Second)
		mgr.Close()
	}
	out := map[string]any{"evaluations": evals, "nontrivial": nontrivial, "samples": samples, "failures": failures, "histories": nHist, "history_length": histLen, "classes": classes}
	if p := os.Getenv("C12_OUT"); p != "" {
		data, _ := json.MarshalIndent(out, "", " ")
		os.WriteFile(p, data, 0o644)
	}
	for i, f := range failures {
		if i < 8 {
			t.Log(f.Class, "|", f.Detail, "|", f.Input)
		}
	}
	t.Logf("evaluations=%d nontrivial=%d failures=%v", evals, nontrivial, classes)
}
