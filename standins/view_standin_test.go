package manager

// Bounded stand-in for C10 (labelled bounded, never counted as proved): a view keeps giving the same
// answers for its whole lifetime while imports, tag edits and mark changes continue. Only the enumeration
// kernel of a view is under contract; the snapshot discipline (every writer in the manager must copy what a
// view may still reference) is checked here by holding views across generated histories of manager calls.
// Injected with `go test -overlay`.

import (
	"context"
	"encoding/json"
	"fmt"
	"math/rand"
	"os"
	"sort"
	"strconv"
	"strings"
	"testing"
	"time"

	"github.com/spq/pkappa2/internal/query"
)

type c10View struct {
	v     View
	tags  []string
	print string
	born  int
}

func c10Fingerprint(v *View, tags []string) (string, error) {
	ctx, cancel := context.WithTimeout(context.Background(), 20*time.Second)
	defer cancel()
	var parts []string
	err := v.AllStreams(ctx, func(sc StreamContext) error {
		s := sc.Stream()
		item := fmt.Sprintf("%d:%d/%d", s.ID(), s.ClientBytes, s.ServerBytes)
		for _, tn := range tags {
			has, err := sc.HasTag(tn)
			if err != nil {
				return fmt.Errorf("HasTag(%s): %w", tn, err)
			}
			if has {
				item += "+" + tn
			}
		}
		parts = append(parts, item)
		return nil
	})
	if err != nil {
		return "", err
	}
	sort.Strings(parts)
	out := "streams[" + strings.Join(parts, " ") + "]"
	for _, tn := range tags {
		typ, sub, _ := strings.Cut(tn, "/")
		for _, qs := range []string{typ + ":" + sub + " sort:id", "-" + typ + ":" + sub + " sort:id"} {
			q, err := query.Parse(qs)
			if err != nil {
				return "", err
			}
			var ids []string
			if _, _, _, err := v.SearchStreams(ctx, q, func(sc StreamContext) error {
				ids = append(ids, strconv.FormatUint(sc.Stream().ID(), 10))
				return nil
			}, Limit(1000, 0)); err != nil {
				return "", fmt.Errorf("search %q: %w", qs, err)
			}
			out += " " + qs + "=[" + strings.Join(ids, " ") + "]"
		}
	}
	return out, nil
}

func TestC10Standin(t *testing.T) {
	nHist, _ := strconv.Atoi(os.Getenv("C10_HISTORIES"))
	if nHist == 0 {
		nHist = 25
	}
	histLen, _ := strconv.Atoi(os.Getenv("C10_LEN"))
	if histLen == 0 {
		histLen = 12
	}
	seed, _ := strconv.ParseInt(os.Getenv("STANDIN_SEED"), 10, 64)
	rng := rand.New(rand.NewSource(seed + 1010))
	type failure struct {
		Class  string   `json:"class"`
		Input  string   `json:"input"`
		Detail string   `json:"detail"`
		Ops    []string `json:"history"`
	}
	var failures []failure
	classes := map[string]int{}
	evals, nontrivial := 0, 0
	var samples [][]string
	fail := func(class string, ops []string, detail string) {
		classes[class]++
		if classes[class] <= 5 {
			failures = append(failures, failure{class, strings.Join(ops, "; "), detail, append([]string(nil), ops...)})
		}
	}
	defs := []string{"cport:1,2", "cport:3", "sport:4321", "data:ba", "cport:1: -cport:3", "id:0:2"}
	for h := 0; h < nHist; h++ {
		d := makeTempdirs(t)
		mgr := makeManager(t, d)
		nStreams := uint64(0)
		if h%3 != 2 {
			importSomePackets(t, mgr, t1, "pcapProcessed")
			nStreams = 4
		} // else: the history starts on an empty service (views opened before the first import)
		tags := map[string]bool{}
		var ops []string
		var views []*c10View
		nSmall, nExt := 0, 0
		known := map[uint64]string{} // every stream a fresh view has shown so far: id -> client endpoint
		do := func(desc string, f func() error) {
			ops = append(ops, desc)
			if err := f(); err != nil {
				ops[len(ops)-1] += " (rejected)"
			}
		}
		for step := 0; step < histLen; step++ {
			op := rng.Intn(12)
			if nStreams == 0 && step == 0 {
				op = 7 // a view of the empty service
			} else if nStreams == 0 && (op == 0 || op == 2 || op == 3) {
				op = 5 // marks need a stream: import first
			}
			switch op {
			case 0:
				nm := []string{"mark/m", "mark/n"}[rng.Intn(2)]
				if !tags[nm] {
					def := fmt.Sprintf("id:%d", rng.Intn(int(nStreams)))
					do(fmt.Sprintf("AddTag(%s,%q)", nm, def), func() error { return mgr.AddTag(nm, "red", def) })
					tags[nm] = true
				}
			case 1:
				nm := []string{"tag/t", "service/s"}[rng.Intn(2)]
				if !tags[nm] {
					def := defs[rng.Intn(len(defs))]
					do(fmt.Sprintf("AddTag(%s,%q)", nm, def), func() error { return mgr.AddTag(nm, "blue", def) })
					tags[nm] = true
				}
			case 2, 3:
				nm := []string{"mark/m", "mark/n"}[rng.Intn(2)]
				if tags[nm] {
					ids := []uint64{uint64(rng.Intn(int(nStreams)))}
					if rng.Intn(2) == 0 {
						do(fmt.Sprintf("MarkAdd(%s,%v)", nm, ids), func() error { return mgr.UpdateTag(nm, UpdateTagOperationMarkAddStream(ids)) })
					} else {
						do(fmt.Sprintf("MarkDel(%s,%v)", nm, ids), func() error { return mgr.UpdateTag(nm, UpdateTagOperationMarkDelStream(ids)) })
					}
				}
			case 4:
				nm := []string{"tag/t", "service/s"}[rng.Intn(2)]
				if tags[nm] {
					def := defs[rng.Intn(len(defs))]
					do(fmt.Sprintf("UpdateQuery(%s,%q)", nm, def), func() error { return mgr.UpdateTag(nm, UpdateTagOperationUpdateQuery(def)) })
				}
			case 5:
				if nStreams < 16 {
					ops = append(ops, "import 4 more streams")
					importSomePackets(t, mgr, t1.Add(time.Duration(nStreams)*time.Hour), "pcapProcessed")
					nStreams += 4
				}
			case 11:
				// more data for one of the small conversations, alone in its capture: the newest index file then
				// holds nothing but a new version of an old stream
				if nSmall > 0 && nExt < 6 {
					k := rng.Intn(nSmall)
					nExt++
					pcaps, err := writePcaps(mgr.PcapDir, []pcapOverIPPacket{makeUDPPacket(fmt.Sprintf("9.0.%d.%d:%d", h%250, k, 1000+k), "2.3.4.5:9001", t1.Add(100*time.Hour+time.Duration(nSmall+nExt)*time.Second), "bar")})
					if err != nil {
						t.Fatalf("writePcaps: %v", err)
					}
					events, closer := mgr.Listen()
					mgr.ImportPcaps(pcaps)
					waitForEvent(t, events, closer, "pcapProcessed")
					ops = append(ops, fmt.Sprintf("import more data for small conversation %d", k))
				}
			case 9, 10:
				// a small import: one new conversation in a file of its own (enough of them trigger merges,
				// which replace index files that held views still reference)
				if nSmall < 12 {
					pcaps, err := writePcaps(mgr.PcapDir, []pcapOverIPPacket{makeUDPPacket(fmt.Sprintf("9.0.%d.%d:%d", h%250, nSmall, 1000+nSmall), "2.3.4.5:9001", t1.Add(100*time.Hour+time.Duration(nSmall+nExt)*time.Second), "foo")})
					if err != nil {
						t.Fatalf("writePcaps: %v", err)
					}
					events, closer := mgr.Listen()
					mgr.ImportPcaps(pcaps)
					waitForEvent(t, events, closer, "pcapProcessed")
					nSmall++
					nStreams++
					ops = append(ops, "import 1 more stream")
				}
			case 6:
				if len(views) > 0 && rng.Intn(2) == 0 {
					i := rng.Intn(len(views))
					ops = append(ops, fmt.Sprintf("release view#%d", views[i].born))
					views[i].v.Release()
					views = append(views[:i], views[i+1:]...)
				}
			default:
				if len(views) < 3 {
					cv := &c10View{v: mgr.GetView(), born: len(ops)}
					for tn := range tags {
						cv.tags = append(cv.tags, tn)
					}
					sort.Strings(cv.tags)
					p, err := c10Fingerprint(&cv.v, cv.tags)
					if err != nil {
						// e.g. a tag that was rejected by the manager: this view is not usable for the comparison
						cv.v.Release()
						ops = append(ops, "view not usable: "+err.Error())
						continue
					}
					cv.print = p
					ops = append(ops, fmt.Sprintf("open view#%d", cv.born))
					views = append(views, cv)
				}
			}
			// complete: a fresh view shows every stream an earlier fresh view showed (imports that were
			// reported processed never make a stream disappear or change its identity)
			{
				fv := mgr.GetView()
				now := map[uint64]string{}
				ctx, cancel := context.WithTimeout(context.Background(), 20*time.Second)
				err := fv.AllStreams(ctx, func(sc StreamContext) error {
					st := sc.Stream()
					now[st.ID()] = fmt.Sprintf("%s:%d", st.ClientHostIP(), st.ClientPort)
					return nil
				})
				cancel()
				fv.Release()
				evals++
				if err != nil {
					fail("view-error", ops, fmt.Sprintf("fresh view: %v", err))
				} else {
					for id, ep := range known {
						if got, ok := now[id]; !ok {
							fail("stream-lost", ops, fmt.Sprintf("stream %d (client %s) was shown by an earlier view and is missing from a fresh one", id, ep))
						} else if got != ep {
							fail("stream-lost", ops, fmt.Sprintf("stream %d was a conversation of client %s and is now one of %s", id, ep, got))
						}
					}
					known = now
				}
			}
			// every live view still gives the answers it gave when it was opened
			for _, cv := range views {
				evals++
				p, err := c10Fingerprint(&cv.v, cv.tags)
				if err != nil {
					fail("view-error", ops, fmt.Sprintf("view#%d: %v", cv.born, err))
					continue
				}
				if p != cv.print {
					fail("view-changed", ops, fmt.Sprintf("view#%d answered %s when opened and %s now", cv.born, cv.print, p))
					cv.print = p
				} else if len(ops) > cv.born+1 {
					nontrivial++
				}
			}
		}
		if len(samples) < 3 {
			samples = append(samples, ops)
		}
		for _, cv := range views {
			cv.v.Release()
		}
		mgr.Close()
	}
	out := map[string]any{"evaluations": evals, "nontrivial": nontrivial, "samples": samples, "failures": failures, "histories": nHist, "history_length": histLen, "classes": classes}
	if p := os.Getenv("C10_OUT"); p != "" {
		data, _ := json.MarshalIndent(out, "", " ")
		os.WriteFile(p, data, 0o644)
	}
	for i, f := range failures {
		if i < 8 {
			t.Log(f.Class, "|", f.Detail, "|", f.Input)
		}
	}
	t.Logf("evaluations=%d nontrivial=%d failures=%v", evals, nontrivial, classes)
}
