package manager

// Bounded stand-in for C05 (labelled bounded, never counted as proved): the indexed payload equals what the
// endpoints exchanged on the wire. Conversations with known content are generated - TCP connections with a
// complete handshake, data in both directions cut into segments, some segments retransmitted, neighbouring
// segments of one direction swapped, a FIN exchange or not, some with minutes between packets; UDP flows -
// interleaved with each other, cut
// chronologically into capture files and imported in one or several batches through a real Manager. Every
// conversation must be visible as exactly one stream with the right endpoints and protocol, and its payload
// per direction, and the order of direction changes, must be the application bytes that were sent.
// gopacket's reassembly is exercised as the service uses it; nothing of it is under contract.
// Injected with `go test -overlay`.

import (
	"context"
	"encoding/json"
	"fmt"
	"math/rand"
	"net/netip"
	"os"
	"sort"
	"strconv"
	"strings"
	"testing"
	"time"

	"github.com/gopacket/gopacket"
	"github.com/gopacket/gopacket/layers"
)

func c05TCP(src, dst string, t time.Time, seq, ack uint32, syn, ackf, fin bool, payload string) pcapOverIPPacket {
	s, d := netip.MustParseAddrPort(src), netip.MustParseAddrPort(dst)
	ip := layers.IPv4{Version: 4, TTL: 64, SrcIP: s.Addr().AsSlice(), DstIP: d.Addr().AsSlice(), Protocol: layers.IPProtocolTCP}
	tcp := layers.TCP{SrcPort: layers.TCPPort(s.Port()), DstPort: layers.TCPPort(d.Port()), Seq: seq, Ack: ack, SYN: syn, ACK: ackf, FIN: fin, PSH: payload != "", Window: 65535}
	if err := tcp.SetNetworkLayerForChecksum(&ip); err != nil {
		panic(err)
	}
	buf := gopacket.NewSerializeBuffer()
	if err := gopacket.SerializeLayers(buf, gopacket.SerializeOptions{ComputeChecksums: true, FixLengths: true}, &ip, &tcp, gopacket.Payload([]byte(payload))); err != nil {
		panic(err)
	}
	data := buf.Bytes()
	return pcapOverIPPacket{linkType: layers.LinkTypeIPv4, ci: gopacket.CaptureInfo{Timestamp: t, CaptureLength: len(data), Length: len(data)}, data: data}
}

type c05Conv struct {
	tcp      bool
	client   string
	server   string
	messages []string // alternating application messages; message k is sent by the client iff (k%2==0) != serverFirst
	serverFirst bool
}

// want: the conversation as the service should show it
func (c *c05Conv) want() string {
	proto := "udp"
	if c.tcp {
		proto = "tcp"
	}
	out := fmt.Sprintf("%s %s>%s", proto, c.client, c.server)
	last := -1
	for k, m := range c.messages {
		dir := 0
		if (k%2 == 0) == c.serverFirst {
			dir = 1
		}
		if dir == last {
			out += m
		} else {
			out += fmt.Sprintf(" %d:%s", dir, m)
		}
		last = dir
	}
	return out
}

type c05Timed struct {
	at time.Duration
	p  func(t time.Time) pcapOverIPPacket
}

func TestC05Standin(t *testing.T) {
	nRounds, _ := strconv.Atoi(os.Getenv("C05_ROUNDS"))
	if nRounds == 0 {
		nRounds = 12
	}
	seed, _ := strconv.ParseInt(os.Getenv("STANDIN_SEED"), 10, 64)
	rng := rand.New(rand.NewSource(seed + 505))
	type failure struct {
		Class  string `json:"class"`
		Input  string `json:"input"`
		Detail string `json:"detail"`
	}
	var failures []failure
	classes := map[string]int{}
	evals, nontrivial := 0, 0
	var samples []string
	fail := func(class, input, detail string) {
		classes[class]++
		if classes[class] <= 5 {
			failures = append(failures, failure{class, input, detail})
		}
	}
	words := []string{"GET /flag", "foo", "bar baz", "0123456789abcdef", "x", "flag{abc}", "hello world, this is a longer message"}
	for round := 0; round < nRounds; round++ {
		nConv := 1 + rng.Intn(5)
		var convs []*c05Conv
		var timeline []c05Timed
		var notes []string
		for ci := 0; ci < nConv; ci++ {
			c := &c05Conv{tcp: rng.Intn(3) != 0, client: fmt.Sprintf("10.%d.0.%d:%d", round%200, ci+1, 40000+ci), server: fmt.Sprintf("10.%d.1.1:%d", round%200, []int{80, 9001, 443}[rng.Intn(3)])}
			for k := 1 + rng.Intn(4); k > 0; k-- {
				c.messages = append(c.messages, words[rng.Intn(len(words))])
			}
			convs = append(convs, c)
			at := time.Duration(rng.Intn(5000)) * time.Millisecond
			// a quarter of the conversations are long lived: minutes between two packets (always less than the
			// 5 minute idle limit), more than the limit in total
			slow := rng.Intn(4) == 0
			step := func() time.Duration {
				if slow && rng.Intn(3) == 0 {
					at += time.Duration(100+rng.Intn(140)) * time.Second
				} else {
					at += time.Duration(1+rng.Intn(300)) * time.Millisecond
				}
				return at
			}
			if slow {
				for k := 2 + rng.Intn(4); k > 0; k-- {
					c.messages = append(c.messages, words[rng.Intn(len(words))])
				}
			}
			if !c.tcp {
				c.serverFirst = false
				for k, m := range c.messages {
					src, dst := c.client, c.server
					if k%2 == 1 {
						src, dst = dst, src
					}
					m := m
					timeline = append(timeline, c05Timed{step(), func(t time.Time) pcapOverIPPacket { return makeUDPPacket(src, dst, t, m) }})
				}
				notes = append(notes, fmt.Sprintf("udp#%d %v", ci, c.messages))
				continue
			}
			c.serverFirst = rng.Intn(4) == 0
			cseq, sseq := uint32(rng.Intn(1<<30)), uint32(rng.Intn(1<<30))
			if rng.Intn(6) == 0 {
				cseq = 0xffffff00 // sequence numbers wrap during the connection
			}
			add := func(src, dst string, seq, ack uint32, syn, ackf, fin bool, payload string) {
				timeline = append(timeline, c05Timed{step(), func(t time.Time) pcapOverIPPacket { return c05TCP(src, dst, t, seq, ack, syn, ackf, fin, payload) }})
			}
			add(c.client, c.server, cseq, 0, true, false, false, "")
			add(c.server, c.client, sseq, cseq+1, true, true, false, "")
			cseq++
			sseq++
			add(c.client, c.server, cseq, sseq, false, true, false, "")
			var note []string
			for k, m := range c.messages {
				fromClient := (k%2 == 0) != c.serverFirst
				// cut the message into segments
				var segs []string
				for len(m) > 0 {
					n := 1 + rng.Intn(len(m))
					if rng.Intn(2) == 0 {
						n = len(m)
					}
					segs = append(segs, m[:n])
					m = m[n:]
				}
				type seg struct {
					seq     uint32
					payload string
				}
				var out []seg
				for _, sg := range segs {
					if fromClient {
						out = append(out, seg{cseq, sg})
						cseq += uint32(len(sg))
					} else {
						out = append(out, seg{sseq, sg})
						sseq += uint32(len(sg))
					}
				}
				// disorder: swap two neighbouring segments, retransmit one
				if len(out) >= 2 && rng.Intn(3) == 0 {
					i := rng.Intn(len(out) - 1)
					out[i], out[i+1] = out[i+1], out[i]
					note = append(note, "swap")
				}
				if rng.Intn(3) == 0 {
					i := rng.Intn(len(out))
					out = append(out[:i+1], append([]seg{out[i]}, out[i+1:]...)...)
					note = append(note, "retransmit")
				}
				for _, sg := range out {
					if fromClient {
						add(c.client, c.server, sg.seq, sseq, false, true, false, sg.payload)
					} else {
						add(c.server, c.client, sg.seq, cseq, false, true, false, sg.payload)
					}
				}
				// the receiver acknowledges
				if fromClient {
					add(c.server, c.client, sseq, cseq, false, true, false, "")
				} else {
					add(c.client, c.server, cseq, sseq, false, true, false, "")
				}
			}
			if rng.Intn(2) == 0 {
				add(c.client, c.server, cseq, sseq, false, true, true, "")
				add(c.server, c.client, sseq, cseq+1, false, true, true, "")
				add(c.client, c.server, cseq+1, sseq+1, false, true, false, "")
				note = append(note, "fin")
			}
			notes = append(notes, fmt.Sprintf("tcp#%d serverFirst=%v %q %v", ci, c.serverFirst, c.messages, note))
		}
		sort.SliceStable(timeline, func(i, j int) bool { return timeline[i].at < timeline[j].at })
		// cut chronologically into capture files, import in one or several batches
		nFiles := 1 + rng.Intn(3)
		if nFiles > len(timeline) {
			nFiles = len(timeline)
		}
		cuts := map[int]bool{}
		for len(cuts) < nFiles-1 {
			cuts[1+rng.Intn(len(timeline)-1)] = true
		}
		oneCall := rng.Intn(2) == 0
		input := fmt.Sprintf("%s; %d capture files, one import call: %v", strings.Join(notes, "; "), nFiles, oneCall)
		if len(samples) < 3 {
			samples = append(samples, input)
		}
		d := makeTempdirs(t)
		mgr := makeManager(t, d)
		var files [][]string
		var cur []pcapOverIPPacket
		flush := func() {
			if len(cur) == 0 {
				return
			}
			n, err := writePcaps(mgr.PcapDir, cur)
			if err != nil {
				t.Fatalf("writePcaps: %v", err)
			}
			files = append(files, n)
			cur = nil
		}
		for i, tp := range timeline {
			if cuts[i] {
				flush()
			}
			cur = append(cur, tp.p(t1.Add(tp.at)))
		}
		flush()
		if oneCall {
			var all []string
			for _, f := range files {
				all = append(all, f...)
			}
			mgr.ImportPcaps(all)
		} else {
			for _, f := range files {
				events, closer := mgr.Listen()
				mgr.ImportPcaps(f)
				waitForEvent(t, events, closer, "pcapProcessed")
			}
		}
		deadline := time.Now().Add(30 * time.Second)
		for time.Now().Before(deadline) {
			st := mgr.Status()
			if st.ImportJobCount == 0 && !st.MergeJobRunning && !st.TaggingJobRunning {
				break
			}
			time.Sleep(10 * time.Millisecond)
		}
		evals++
		v := mgr.GetView()
		var got []string
		ctx, cancel := context.WithTimeout(context.Background(), 20*time.Second)
		err := v.AllStreams(ctx, func(sc StreamContext) error {
			st := sc.Stream()
			dd, err := sc.Data("")
			if err != nil {
				return err
			}
			proto := strings.ToLower(st.Protocol())
			line := fmt.Sprintf("%s %s:%d>%s:%d", proto, st.ClientHostIP(), st.ClientPort, st.ServerHostIP(), st.ServerPort)
			last := -1
			for _, c := range dd {
				if int(c.Direction) == last {
					line += string(c.Content)
				} else {
					line += fmt.Sprintf(" %d:%s", c.Direction, string(c.Content))
				}
				last = int(c.Direction)
			}
			got = append(got, line)
			return nil
		})
		cancel()
		v.Release()
		mgr.Close()
		if err != nil {
			fail("read-error", input, err.Error())
			continue
		}
		var want []string
		for _, c := range convs {
			want = append(want, c.want())
		}
		sort.Strings(got)
		sort.Strings(want)
		if strings.Join(got, "\n") != strings.Join(want, "\n") {
			fail("payload", input, fmt.Sprintf("the service shows %q, the endpoints exchanged %q", got, want))
		} else {
			nontrivial++
		}
	}
	out := map[string]any{"evaluations": evals, "nontrivial": nontrivial, "samples": samples, "failures": failures, "rounds": nRounds, "classes": classes}
	if p := os.Getenv("C05_OUT"); p != "" {
		data, _ := json.MarshalIndent(out, "", " ")
		os.WriteFile(p, data, 0o644)
	}
	for i, f := range failures {
		if i < 8 {
			t.Log(f.Class, "|", f.Detail, "|", f.Input)
		}
	}
	t.Logf("evaluations=%d nontrivial=%d failures=%v", evals, nontrivial, classes)
}
