package index

// Bounded stand-in for C01 (labelled bounded, never counted as proved): streams written with the real
// Writer and read back with the real Reader must come back exactly as written - addresses, ports, byte
// counts, times, the packet list with its capture sources and directions, the payload per direction in
// conversation order - and the lookups (by id, by first packet source) must find them. Only the writer's
// host table is under contract; packet records, segmentation, lookup sections and the whole reader are
// checked here, up to the stated bound. Injected with `go test -overlay`.

import (
	"bytes"
	"encoding/json"
	"fmt"
	"math/rand"
	"net/netip"
	"os"
	"strconv"
	"testing"
	"time"

	"github.com/gopacket/gopacket"
	"github.com/gopacket/gopacket/reassembly"
	"github.com/spq/pkappa2/internal/index/streams"
	"github.com/spq/pkappa2/internal/tools"
	pcapmetadata "github.com/spq/pkappa2/internal/tools/pcapMetadata"
)

type c01Stream struct {
	ID       uint64
	Client   string
	Server   string
	Start    time.Time
	GapsUS   []int64 // time between consecutive packets
	Dirs     []bool  // per packet: true = client to server
	DataAt   map[int]int // packet index -> payload size
	Pcap     string
	PcapBase uint64
	// Split > 0: the packets from position Split on come from a second capture file, numbered there so that the
	// first of them has the same packet number as the packet before it (same number, different capture)
	Split int
	UDP      bool
	payload  map[int][]byte
}

func (s *c01Stream) describe() string {
	return fmt.Sprintf("id=%d %s>%s packets=%d data=%v gapsUS=%v pcap=%s+%d udp=%v", s.ID, s.Client, s.Server, len(s.Dirs), s.DataAt, s.GapsUS, s.Pcap, s.PcapBase, s.UDP)
}

// src: capture file and packet number of the stream's i-th packet
func (s *c01Stream) src(i int) (string, uint64) {
	if s.Split > 0 && i >= s.Split {
		return "second-" + s.Pcap, s.PcapBase + uint64(s.Split-1) + uint64(i-s.Split)
	}
	return s.Pcap, s.PcapBase + uint64(i)
}

func (s *c01Stream) build(rng *rand.Rand) streams.Stream {
	c := netip.MustParseAddrPort(s.Client)
	v := netip.MustParseAddrPort(s.Server)
	info := &pcapmetadata.PcapInfo{Filename: s.Pcap, Filesize: 1, PacketTimestampMin: s.Start, PacketTimestampMax: s.Start.Add(time.Hour * 100), ParseTime: s.Start, PacketCount: uint(s.PcapBase) + uint(len(s.Dirs))}
	st := streams.Stream{
		ClientAddr: c.Addr().AsSlice(), ServerAddr: v.Addr().AsSlice(), ClientPort: c.Port(), ServerPort: v.Port(),
		Flags: streams.StreamFlagsComplete | streams.StreamFlagsProtocolTCP,
	}
	if s.UDP {
		st.Flags = streams.StreamFlagsComplete | streams.StreamFlagsProtocolUDP
	}
	ts := s.Start
	s.payload = map[int][]byte{}
	var info2 *pcapmetadata.PcapInfo
	for i, d := range s.Dirs {
		if i > 0 {
			ts = ts.Add(time.Duration(s.GapsUS[i-1]) * time.Microsecond)
		}
		ci := gopacket.CaptureInfo{Timestamp: ts, CaptureLength: 60, Length: 60}
		if fn, idx := s.src(i); fn == s.Pcap {
			pcapmetadata.AddPcapMetadata(&ci, info, idx)
		} else {
			if info2 == nil {
				info2 = &pcapmetadata.PcapInfo{Filename: fn, Filesize: 1, PacketTimestampMin: s.Start, PacketTimestampMax: s.Start.Add(time.Hour * 100), ParseTime: s.Start, PacketCount: uint(s.PcapBase) + uint(len(s.Dirs))}
			}
			pcapmetadata.AddPcapMetadata(&ci, info2, idx)
		}
		st.Packets = append(st.Packets, ci)
		dir := reassembly.TCPDirClientToServer
		if !d {
			dir = reassembly.TCPDirServerToClient
		}
		st.PacketDirections = append(st.PacketDirections, dir)
		if n, ok := s.DataAt[i]; ok && n > 0 {
			b := make([]byte, n)
			for k := range b {
				b[k] = byte('a' + (i+k)%23)
			}
			b[0] = byte('A' + i%26)
			s.payload[i] = b
			st.Data = append(st.Data, streams.StreamData{Bytes: b, PacketIndex: uint64(i)})
		}
	}
	return st
}

func genC01Stream(rng *rand.Rand, id uint64, kind int) *c01Stream {
	addrs4 := []string{"10.0.0.1", "10.0.0.2", "192.168.1.1", "172.16.5.4"}
	addrs6 := []string{"fd00::1", "fd00::2", "2001:db8::1"}
	s := &c01Stream{ID: id, DataAt: map[int]int{}, Pcap: fmt.Sprintf("cap%d.pcap", rng.Intn(3)), PcapBase: []uint64{0, 1000, 4000, 1<<32 - 3, 1 << 32, 1<<32 + 5, 3<<32 - 2, 3 << 32, 3<<32 + 1000}[rng.Intn(9)], UDP: rng.Intn(4) == 0}
	if rng.Intn(3) == 0 {
		s.Client = netip.AddrPortFrom(netip.MustParseAddr(addrs6[rng.Intn(3)]), uint16(1+rng.Intn(65535))).String()
		s.Server = netip.AddrPortFrom(netip.MustParseAddr(addrs6[rng.Intn(3)]), uint16(1+rng.Intn(65535))).String()
	} else {
		s.Client = netip.AddrPortFrom(netip.MustParseAddr(addrs4[rng.Intn(4)]), uint16(1+rng.Intn(65535))).String()
		s.Server = netip.AddrPortFrom(netip.MustParseAddr(addrs4[rng.Intn(4)]), uint16(1+rng.Intn(65535))).String()
	}
	s.Start = t1.Add(time.Duration(rng.Intn(100000)) * time.Second)
	n := 1 + rng.Intn(8)
	sizes := []int{1, 2, 100, 1500}
	gaps := []int64{0, 1, 999, 1000, 250000, 2000000}
	switch kind {
	case 1: // many packets without payload between payload packets (skip counters)
		n = 300 + rng.Intn(400)
	case 2: // payload pieces around the 64 KiB record limit
		sizes = []int{65534, 65535, 65536, 65537, 131070, 200000, 3}
	case 3: // long lived: relative times beyond 2^32 microseconds
		gaps = []int64{1 << 31, 1<<32 - 1, 1 << 32, 1<<32 + 7, 5, 3 << 31}
	case 4: // long lived with many packets: the 32 bit relative time wraps while payload-less packets are skipped
		n = 300 + rng.Intn(300)
		gaps = []int64{1 << 24, 1 << 25, 3 << 23, 1000}
	}
	if kind == 5 {
		// ping-pong: thousands of one byte pieces in alternating directions and a longer last piece (the list of
		// direction-run sizes is longer than the 4096 byte buffer it is copied through when files are merged)
		n = 4085 + rng.Intn(20)
		for i := 0; i < n; i++ {
			s.Dirs = append(s.Dirs, i%2 == 0)
			if i > 0 {
				s.GapsUS = append(s.GapsUS, 1)
			}
			s.DataAt[i] = 1
		}
		s.DataAt[n-1] = 150 + rng.Intn(100)
		return s
	}
	for i := 0; i < n; i++ {
		s.Dirs = append(s.Dirs, rng.Intn(2) == 0)
		if i > 0 {
			s.GapsUS = append(s.GapsUS, gaps[rng.Intn(len(gaps))])
		}
		p := 2
		if kind == 1 || kind == 4 {
			p = 120
		}
		if rng.Intn(p) == 0 {
			s.DataAt[i] = sizes[rng.Intn(len(sizes))]
		}
	}
	if len(s.Dirs) >= 2 && rng.Intn(4) == 0 {
		s.Split = 1 + rng.Intn(len(s.Dirs)-1)
	}
	return s
}

type c01Piece struct {
	c2s  bool
	data []byte
}

func mergePieces(ps []c01Piece) []c01Piece {
	var out []c01Piece
	for _, p := range ps {
		if len(p.data) == 0 {
			continue
		}
		if len(out) > 0 && out[len(out)-1].c2s == p.c2s {
			out[len(out)-1].data = append(append([]byte(nil), out[len(out)-1].data...), p.data...)
		} else {
			out = append(out, c01Piece{p.c2s, append([]byte(nil), p.data...)})
		}
	}
	return out
}

func TestC01Standin(t *testing.T) {
	rounds, _ := strconv.Atoi(os.Getenv("C01_ROUNDS"))
	if rounds == 0 {
		rounds = 30
	}
	manyHosts, _ := strconv.Atoi(os.Getenv("C01_HOSTS"))
	seed, _ := strconv.ParseInt(os.Getenv("STANDIN_SEED"), 10, 64)
	rng := rand.New(rand.NewSource(seed + 101))
	type failure struct {
		Class  string `json:"class"`
		Input  string `json:"input"`
		Detail string `json:"detail"`
	}
	var failures []failure
	classes := map[string]int{}
	evals, nontrivial := 0, 0
	var samples []string
	fail := func(class, input, detail string) {
		classes[class]++
		if classes[class] <= 5 {
			failures = append(failures, failure{class, input, detail})
		}
	}
	checkIndex := func(r *Reader, ss []*c01Stream, light bool) {
		for _, s := range ss {
			evals++
			in := s.describe()
			got, err := r.StreamByID(s.ID)
			if err != nil || got == nil {
				fail("by-id", in, fmt.Sprintf("StreamByID: %v %v", got, err))
				continue
			}
			c := netip.MustParseAddrPort(s.Client)
			v := netip.MustParseAddrPort(s.Server)
			if got.ClientHostIP() != c.Addr().String() || got.ServerHostIP() != v.Addr().String() {
				fail("hosts", in, fmt.Sprintf("hosts %s > %s", got.ClientHostIP(), got.ServerHostIP()))
				continue
			}
			if got.ClientPort != c.Port() || got.ServerPort != v.Port() {
				fail("ports", in, fmt.Sprintf("ports %d > %d", got.ClientPort, got.ServerPort))
			}
			if light {
				continue
			}
			wantProto := "TCP"
			if s.UDP {
				wantProto = "UDP"
			}
			if got.Protocol() != wantProto {
				fail("protocol", in, got.Protocol())
			}
			ts := s.Start
			last := ts
			for _, g := range s.GapsUS {
				last = last.Add(time.Duration(g) * time.Microsecond)
			}
			if !got.FirstPacket().Equal(ts) || !got.LastPacket().Equal(last) {
				fail("times", in, fmt.Sprintf("first %v last %v, want %v %v", got.FirstPacket().UTC(), got.LastPacket().UTC(), ts.UTC(), last.UTC()))
			}
			var cb, sb uint64
			var want []c01Piece
			for i, d := range s.Dirs {
				if b, ok := s.payload[i]; ok {
					want = append(want, c01Piece{d, b})
					if d {
						cb += uint64(len(b))
					} else {
						sb += uint64(len(b))
					}
				}
			}
			if got.ClientBytes != cb || got.ServerBytes != sb {
				fail("byte-counts", in, fmt.Sprintf("bytes %d/%d want %d/%d", got.ClientBytes, got.ServerBytes, cb, sb))
			}
			pk, err := got.Packets()
			if err != nil {
				fail("packets-error", in, err.Error())
			} else if len(pk) != len(s.Dirs) {
				fail("packet-count", in, fmt.Sprintf("%d packets, want %d", len(pk), len(s.Dirs)))
			} else {
				pt := s.Start
				for i, p := range pk {
					if i > 0 {
						pt = pt.Add(time.Duration(s.GapsUS[i-1]) * time.Microsecond)
					}
					wantDir := DirectionClientToServer
					if !s.Dirs[i] {
						wantDir = DirectionServerToClient
					}
					wantFn, wantIdx := s.src(i)
					if p.PcapFilename != wantFn || p.PcapIndex != wantIdx || p.Direction != wantDir || !p.Timestamp.Equal(pt) {
						class := "packet"
						for _, g := range s.GapsUS {
							if g >= 1<<32 {
								// the record keeps packet times as 32 bit microsecond offsets: one silence of
								// 2^32 us (71.6 min) or more between two packets cannot be told from a short one
								class = "packet-time-after-silence-over-71min"
							}
						}
						fail(class, in, fmt.Sprintf("packet %d: %s#%d dir=%v at %v, want %s#%d dir=%v at %v", i, p.PcapFilename, p.PcapIndex, p.Direction, p.Timestamp.UTC(), wantFn, wantIdx, wantDir, pt.UTC()))
						break
					}
				}
			}
			data, err := got.Data()
			if err != nil {
				fail("data-error", in, err.Error())
			} else {
				var gotPieces []c01Piece
				// every piece carries the capture time of a packet of its direction that had payload
				stamps := map[int64]bool{}
				pt := s.Start
				for i := range s.Dirs {
					if i > 0 {
						pt = pt.Add(time.Duration(s.GapsUS[i-1]) * time.Microsecond)
					}
					if _, ok := s.payload[i]; ok {
						stamps[pt.UnixMicro()] = true
					}
				}
				longSilence := false
				for _, g := range s.GapsUS {
					if g >= 1<<32 {
						longSilence = true
					}
				}
				for _, d := range data {
					gotPieces = append(gotPieces, c01Piece{d.Direction == DirectionClientToServer, d.Content})
					if !stamps[d.Time.UnixMicro()] && !longSilence {
						fail("payload-time", in, fmt.Sprintf("a payload piece is stamped %v, no packet with payload has that time", d.Time.UTC()))
						break
					}
				}
				g, w := mergePieces(gotPieces), mergePieces(want)
				ok := len(g) == len(w)
				for i := 0; ok && i < len(g); i++ {
					ok = g[i].c2s == w[i].c2s && bytes.Equal(g[i].data, w[i].data)
				}
				if !ok {
					fail("payload", in, fmt.Sprintf("%d merged pieces, want %d", len(g), len(w)))
				}
				if len(w) > 0 {
					nontrivial++
				}
			}
			// the lookup by the source of the first packet
			if os.Getenv("C01_MERGE") != "" {
				continue // other visible streams may start at the same source packet
			}
			bs, err := r.StreamByFirstPacketSource(s.Pcap, s.PcapBase)
			if err != nil {
				fail("by-source-error", in, err.Error())
			} else if bs == nil || bs.StreamID != s.ID {
				// another stream may start at the same source packet in this population
				dup := false
				for _, o := range ss {
					if o != s && o.Pcap == s.Pcap && o.PcapBase == s.PcapBase {
						dup = true
					}
				}
				if !dup {
					id := int64(-1)
					if bs != nil {
						id = int64(bs.StreamID)
					}
					fail("by-source", in, fmt.Sprintf("StreamByFirstPacketSource(%s,%d) = stream %d", s.Pcap, s.PcapBase, id))
				}
			}
		}
	}
	if os.Getenv("C01_MERGE") != "" {
		// C07: several index files with newer versions of some stream ids, merged; the merged files must
		// return exactly the newest version of every stream, as it was written
		for round := 0; round < rounds; round++ {
			tmp := t.TempDir()
			nFiles := 2 + rng.Intn(3)
			var readers []*Reader
			visible := map[uint64]*c01Stream{}
			for f := 0; f < nFiles; f++ {
				w, err := NewWriter(tools.MakeFilename(tmp, "idx"))
				if err != nil {
					t.Fatal(err)
				}
				n := 1 + rng.Intn(6)
				used := map[uint64]bool{}
				for i := 0; i < n; i++ {
					id := uint64(rng.Intn(10))
					if used[id] {
						continue
					}
					used[id] = true
					s := genC01Stream(rng, id, []int{0, 0, 0, 0, 0, 0, 0, 1, 1, 2, 2, 4, 4, 5}[rng.Intn(14)])
					if f%2 == 1 {
						// files written at another time have another reference time: merged times are re-based
						s.Start = s.Start.Add(time.Duration(rng.Intn(1000)) * time.Hour)
					}
					st := s.build(rng)
					if ok, err := w.AddStream(&st, s.ID); err != nil || !ok {
						fail("add-stream", s.describe(), fmt.Sprintf("AddStream: %v %v", ok, err))
						continue
					}
					visible[id] = s // later files hold the newer version
				}
				r, err := w.Finalize()
				if err != nil {
					fail("finalize", fmt.Sprint(f), err.Error())
					continue
				}
				readers = append(readers, r)
			}
			merged, err := Merge(tmp, readers)
			if err != nil {
				fail("merge-error", fmt.Sprint(nFiles), err.Error())
				continue
			}
			total := 0
			for _, m := range merged {
				total += m.StreamCount()
			}
			if total != len(visible) {
				fail("merged-stream-count", fmt.Sprintf("%d files", nFiles), fmt.Sprintf("merged files hold %d stream records, %d stream ids are visible", total, len(visible)))
			}
			for _, s := range visible {
				var holder *Reader
				for _, m := range merged {
					if got, err := m.StreamByID(s.ID); err == nil && got != nil {
						if holder != nil {
							fail("merged-twice", s.describe(), "two merged files hold this stream id")
						}
						holder = m
					}
				}
				if holder == nil {
					fail("merged-lost", s.describe(), "no merged file holds this stream id")
					continue
				}
				checkIndex(holder, []*c01Stream{s}, false)
			}
			if len(samples) < 3 {
				for _, s := range visible {
					samples = append(samples, fmt.Sprintf("%d files -> %d merged; %s", nFiles, len(merged), s.describe()))
					break
				}
			}
			for _, r := range append(readers, merged...) {
				r.Close()
			}
		}
		if nh, _ := strconv.Atoi(os.Getenv("C01_MERGE_HOSTS")); nh > 0 {
			// a merge whose host remapping overflows a host group: the older file shares the server with the
			// newer one and brings clients of its own, the newer file nearly fills an IPv6 host group
			tmp := t.TempDir()
			mk := func(lo, n int, tag byte) (*Reader, []*c01Stream) {
				w, err := NewWriter(tools.MakeFilename(tmp, "idx"))
				if err != nil {
					t.Fatal(err)
				}
				var ss []*c01Stream
				for i := 0; i < n; i++ {
					s := &c01Stream{ID: uint64(lo + i), DataAt: map[int]int{}, Pcap: "hosts.pcap", PcapBase: uint64(lo + i), Dirs: []bool{true}, Start: t1}
					s.Client = netip.AddrPortFrom(netip.AddrFrom16([16]byte{0xfd, tag, 0, 0, 0, 0, 0, 0, 0, 0, 0, 0, 0, 0, byte(i >> 8), byte(i)}), 1000).String()
					s.Server = "[fd00::99]:80"
					st := s.build(rng)
					if ok, err := w.AddStream(&st, s.ID); err != nil || !ok {
						break
					}
					ss = append(ss, s)
				}
				r, err := w.Finalize()
				if err != nil {
					t.Fatal(err)
				}
				return r, ss
			}
			older, so := mk(0, 200, 1)
			newer, sn := mk(1000, nh, 2)
			merged, err := Merge(tmp, []*Reader{older, newer})
			if err != nil {
				fail("merge-error", "many hosts", err.Error())
			} else {
				for _, s := range append(so, sn...) {
					var holder *Reader
					for _, m := range merged {
						if got, err := m.StreamByID(s.ID); err == nil && got != nil {
							holder = m
						}
					}
					if holder == nil {
						fail("merged-lost", s.describe(), "no merged file holds this stream id")
						continue
					}
					checkIndex(holder, []*c01Stream{s}, true)
				}
				for _, r := range merged {
					r.Close()
				}
			}
			// the input readers are still served while (and after) they are merged: they show what they showed
			checkIndex(older, so, true)
			checkIndex(newer, sn, true)
			older.Close()
			newer.Close()
			// a newest file whose first IPv4 host group has one free slot and whose last stream brought two unknown
			// hosts (they went into a second group), merged with an older file that brings unknown hosts: neither
			// the merged file nor the input readers may show another address for any stream
			mk4 := func(name string, ids uint64, pairs [][2][4]byte) (*Reader, []*c01Stream) {
				w, err := NewWriter(tools.MakeFilename(tmp, "idx"))
				if err != nil {
					t.Fatal(err)
				}
				var ss []*c01Stream
				for i, pr := range pairs {
					s := &c01Stream{ID: ids + uint64(i), DataAt: map[int]int{0: 1}, Pcap: name, PcapBase: uint64(i), Dirs: []bool{true}, Start: t1}
					s.Client = netip.AddrPortFrom(netip.AddrFrom4(pr[0]), 1234).String()
					s.Server = netip.AddrPortFrom(netip.AddrFrom4(pr[1]), 80).String()
					st := s.build(rng)
					if ok, err := w.AddStream(&st, s.ID); err != nil || !ok {
						t.Fatalf("AddStream: %v %v", ok, err)
					}
					ss = append(ss, s)
				}
				r, err := w.Finalize()
				if err != nil {
					t.Fatal(err)
				}
				return r, ss
			}
			var np [][2][4]byte
			for i := 0; i < 8191; i++ {
				np = append(np, [2][4]byte{{10, 0, byte(i >> 8), byte(i)}, {11, 0, byte(i >> 8), byte(i)}})
			}
			np = append(np, [2][4]byte{{10, 0, 0, 0}, {12, 0, 0, 0}}, [2][4]byte{{13, 0, 0, 1}, {13, 0, 0, 2}})
			newer4, sn4 := mk4("newer4.pcap", 100000, np)
			older4, so4 := mk4("older4.pcap", 50000, [][2][4]byte{{{99, 0, 0, 1}, {99, 0, 0, 2}}, {{99, 0, 0, 3}, {10, 0, 0, 5}}})
			merged4, err := Merge(tmp, []*Reader{older4, newer4})
			if err != nil {
				fail("merge-error", "ipv4 host groups", err.Error())
			} else {
				for _, s := range append(so4, sn4...) {
					for _, m := range merged4 {
						if got, err := m.StreamByID(s.ID); err == nil && got != nil {
							checkIndex(m, []*c01Stream{s}, true)
						}
					}
				}
				for _, r := range merged4 {
					r.Close()
				}
			}
			checkIndex(older4, so4, true)
			checkIndex(newer4, sn4, true)
			older4.Close()
			newer4.Close()
		}
		rounds = 0
	}
	for round := 0; round < rounds; round++ {
		tmp := t.TempDir()
		w, err := NewWriter(tools.MakeFilename(tmp, "idx"))
		if err != nil {
			t.Fatal(err)
		}
		var ss []*c01Stream
		n := 1 + rng.Intn(8)
		for i := 0; i < n; i++ {
			s := genC01Stream(rng, uint64(i*3+rng.Intn(3)), []int{0, 0, 0, 0, 0, 0, 1, 1, 2, 2, 3, 3, 4, 4, 5}[rng.Intn(15)])
			st := s.build(rng)
			ok, err := w.AddStream(&st, s.ID)
			if err != nil || !ok {
				fail("add-stream", s.describe(), fmt.Sprintf("AddStream: %v %v", ok, err))
				continue
			}
			ss = append(ss, s)
		}
		r, err := w.Finalize()
		if err != nil {
			fail("finalize", fmt.Sprint(len(ss)), err.Error())
			continue
		}
		if len(samples) < 3 && len(ss) > 0 {
			samples = append(samples, ss[0].describe())
		}
		checkIndex(r, ss, false)
		r.Close()
	}
	if manyHosts > 0 {
		// more hosts than one host group holds
		tmp := t.TempDir()
		w, err := NewWriter(tools.MakeFilename(tmp, "idx"))
		if err != nil {
			t.Fatal(err)
		}
		var ss []*c01Stream
		for i := 0; i < manyHosts; i++ {
			s := &c01Stream{ID: uint64(i), DataAt: map[int]int{}, Pcap: "many.pcap", PcapBase: uint64(i), Dirs: []bool{true}, Start: t1}
			s.Client = netip.AddrPortFrom(netip.AddrFrom4([4]byte{11, byte(i >> 16), byte(i >> 8), byte(i)}), 1000).String()
			s.Server = "12.0.0.1:80"
			if i%5 == 0 {
				s.Client = netip.AddrPortFrom(netip.AddrFrom16([16]byte{0xfd, 0, 0, 0, 0, 0, 0, 0, 0, 0, 0, 0, 0, byte(i >> 16), byte(i >> 8), byte(i)}), 1000).String()
				s.Server = "[fd00::99]:80"
			}
			if i%997 == 3 && (i/2)%5 != 0 && i%5 != 0 {
				// a client that an earlier stream brought (it sits in an earlier, by now full host group) talks to a
				// server that is new: placing the pair must not disturb the hosts of the earlier streams
				j := i / 2
				s.Client = netip.AddrPortFrom(netip.AddrFrom4([4]byte{11, byte(j >> 16), byte(j >> 8), byte(j)}), 1000).String()
				s.Server = netip.AddrPortFrom(netip.AddrFrom4([4]byte{13, byte(i >> 16), byte(i >> 8), byte(i)}), 80).String()
			}
			st := s.build(rng)
			if ok, err := w.AddStream(&st, s.ID); err != nil || !ok {
				// the writer may refuse when a table is full: the caller starts a new file; not a fault here
				break
			}
			ss = append(ss, s)
		}
		r, err := w.Finalize()
		if err != nil {
			fail("finalize", "many hosts", err.Error())
		} else {
			checkIndex(r, ss, true)
			r.Close()
		}
	}
	out := map[string]any{"evaluations": evals, "nontrivial": nontrivial, "samples": samples, "failures": failures, "rounds": rounds, "many_hosts": manyHosts, "classes": classes}
	if p := os.Getenv("C01_OUT"); p != "" {
		data, _ := json.MarshalIndent(out, "", " ")
		os.WriteFile(p, data, 0o644)
	}
	for i, f := range failures {
		if i < 12 {
			in := f.Input
			if len(in) > 250 {
				in = in[:250]
			}
			t.Log(f.Class, "|", f.Detail, "|", in)
		}
	}
	t.Logf("evaluations=%d nontrivial=%d failures=%v", evals, nontrivial, classes)
}
