package index

// Bounded stand-in for C02 (labelled bounded, never counted as proved): the whole search pipeline
// (query parser -> normal form -> per-index filters and lookups -> scan strategies -> sorted, limited
// accumulator -> paging) is out of reach of the function-by-function verifier, so it is run on
// generated stream populations, spread over stacks of index files with shadowed versions, against a
// direct evaluation of the query on the visible streams. Injected with `go test -overlay`.
//
// Bound: populations of at most C02_STREAMS streams (default 9) over at most 3 index files, queries of
// depth <= 3 over the filters id/port/bytes/host/protocol/time/data with AND/OR/NOT, lists and ranges,
// one or two sort keys, limits 0..N and pages; C02_ROUNDS populations x C02_QUERIES queries.

import (
	"bytes"
	"context"
	"encoding/json"
	"fmt"
	"math/rand"
	"net/netip"
	"os"
	"regexp"
	"sort"
	"strconv"
	"strings"
	"testing"
	"time"

	"github.com/spq/pkappa2/internal/index/streams"
	"github.com/spq/pkappa2/internal/query"
	"github.com/spq/pkappa2/internal/tools"
	"github.com/spq/pkappa2/internal/tools/bitmask"
)

type c02Stream struct {
	ID           uint64
	Client       string // addr:port
	Server       string
	FirstH       int // first packet at base + FirstH hours
	Chunks       []string
	ServerFirst  bool
	UDP          bool
	LongH        int // the last packet comes this many hours after the payload (a long lived stream)
	Index        int // index file holding this version
	cAddr, sAddr netip.Addr
	cPort, sPort uint16
	cData, sData string
	first, last  time.Time
}

func (s *c02Stream) prepare(base time.Time) {
	c := netip.MustParseAddrPort(s.Client)
	v := netip.MustParseAddrPort(s.Server)
	s.cAddr, s.sAddr, s.cPort, s.sPort = c.Addr(), v.Addr(), c.Port(), v.Port()
	s.cData, s.sData = "", ""
	client := !s.ServerFirst
	for _, ch := range s.Chunks {
		if client {
			s.cData += ch
		} else {
			s.sData += ch
		}
		client = !client
	}
	s.first = base.Add(time.Hour * time.Duration(s.FirstH))
	s.last = s.first.Add(time.Second*time.Duration(2+len(s.Chunks)) + time.Hour*time.Duration(s.LongH))
}

func (s *c02Stream) info(base time.Time) streamInfo {
	data := s.Chunks
	if s.ServerFirst {
		data = append([]string{""}, data...)
	}
	si := makeStream(s.Client, s.Server, base.Add(time.Hour*time.Duration(s.FirstH)), data)
	if s.UDP {
		si.s.Flags = streams.StreamFlagsComplete | streams.StreamFlagsProtocolUDP
	}
	if s.LongH != 0 {
		last := &si.s.Packets[len(si.s.Packets)-1]
		last.Timestamp = last.Timestamp.Add(time.Hour * time.Duration(s.LongH))
	}
	return si
}

// ---- query AST with its own direct semantics ----

type c02Q interface {
	eval(s *c02Stream, ref time.Time) bool
	str() string
}

type c02Range struct{ Lo, Hi int64 } // -1 = open

func rangesStr(rs []c02Range) string {
	var parts []string
	for _, r := range rs {
		switch {
		case r.Lo == r.Hi:
			parts = append(parts, strconv.FormatInt(r.Lo, 10))
		case r.Lo < 0:
			parts = append(parts, ":"+strconv.FormatInt(r.Hi, 10))
		case r.Hi < 0:
			parts = append(parts, strconv.FormatInt(r.Lo, 10)+":")
		default:
			parts = append(parts, strconv.FormatInt(r.Lo, 10)+":"+strconv.FormatInt(r.Hi, 10))
		}
	}
	return strings.Join(parts, ",")
}

func inRanges(v uint64, rs []c02Range) bool {
	for _, r := range rs {
		if (r.Lo < 0 || v >= uint64(r.Lo)) && (r.Hi < 0 || v <= uint64(r.Hi)) {
			return true
		}
	}
	return false
}

type c02Num struct {
	Key string // id cport sport port cbytes sbytes bytes
	R   []c02Range
}

func (q c02Num) str() string { return q.Key + ":" + rangesStr(q.R) }
func (q c02Num) eval(s *c02Stream, _ time.Time) bool {
	switch q.Key {
	case "id":
		return inRanges(s.ID, q.R)
	case "cport":
		return inRanges(uint64(s.cPort), q.R)
	case "sport":
		return inRanges(uint64(s.sPort), q.R)
	case "port":
		return inRanges(uint64(s.cPort), q.R) || inRanges(uint64(s.sPort), q.R)
	case "cbytes":
		return inRanges(uint64(len(s.cData)), q.R)
	case "sbytes":
		return inRanges(uint64(len(s.sData)), q.R)
	case "bytes":
		return inRanges(uint64(len(s.cData)), q.R) || inRanges(uint64(len(s.sData)), q.R)
	}
	panic(q.Key)
}

type c02Host struct {
	Key  string // chost shost host
	Addr string
	Bits []int
}

func (q c02Host) str() string {
	s := q.Key + ":" + q.Addr
	for _, b := range q.Bits {
		s += "/" + strconv.Itoa(b)
	}
	return s
}

func hostMask(n int, bits []int) []byte {
	m := make([]byte, n/8)
	if len(bits) == 0 {
		for i := range m {
			m[i] = 0xff
		}
		return m
	}
	for _, b := range bits {
		if b > 0 {
			for i := 0; i < b && i < n; i++ {
				m[i/8] ^= 1 << (7 - i%8)
			}
		} else {
			for i := n + b; i < n; i++ {
				if i >= 0 {
					m[i/8] ^= 1 << (7 - i%8)
				}
			}
		}
	}
	return m
}

func hostMatches(a netip.Addr, want netip.Addr, bits []int) bool {
	if a.Is4() != want.Is4() {
		return false
	}
	ab, wb := a.AsSlice(), want.AsSlice()
	m := hostMask(len(ab)*8, bits)
	for i := range ab {
		if ab[i]&m[i] != wb[i]&m[i] {
			return false
		}
	}
	return true
}

func (q c02Host) eval(s *c02Stream, _ time.Time) bool {
	w := netip.MustParseAddr(q.Addr)
	switch q.Key {
	case "chost":
		return hostMatches(s.cAddr, w, q.Bits)
	case "shost":
		return hostMatches(s.sAddr, w, q.Bits)
	}
	return hostMatches(s.cAddr, w, q.Bits) || hostMatches(s.sAddr, w, q.Bits)
}

// Self adds the element "@protocol@" (the stream's own protocol: always equal) to the list
type c02Proto struct{ TCP, UDP, Self bool }

func (q c02Proto) str() string {
	var p []string
	if q.Self {
		p = append(p, "@protocol@")
	}
	if q.TCP {
		p = append(p, "tcp")
	}
	if q.UDP {
		p = append(p, "udp")
	}
	return "protocol:" + strings.Join(p, ",")
}
func (q c02Proto) eval(s *c02Stream, _ time.Time) bool {
	return q.Self || s.UDP && q.UDP || !s.UDP && q.TCP
}

type c02Time struct {
	Key    string // ftime ltime time
	LoMin  int    // bound = ref - LoMin minutes; -1 = open
	HiMin  int
}

func relStr(m int) string {
	if m < 0 {
		return ""
	}
	return fmt.Sprintf("-%dh%dm", m/60, m%60)
}
func (q c02Time) str() string { return q.Key + ":" + relStr(q.LoMin) + ":" + relStr(q.HiMin) }
func (q c02Time) in(t, ref time.Time) bool {
	if q.LoMin >= 0 && t.Before(ref.Add(-time.Minute*time.Duration(q.LoMin))) {
		return false
	}
	if q.HiMin >= 0 && t.After(ref.Add(-time.Minute*time.Duration(q.HiMin))) {
		return false
	}
	return true
}
func (q c02Time) eval(s *c02Stream, ref time.Time) bool {
	switch q.Key {
	case "ftime":
		return q.in(s.first, ref)
	case "ltime":
		return q.in(s.last, ref)
	}
	return q.in(s.first, ref) || q.in(s.last, ref)
}

type c02Data struct {
	Key string // cdata sdata data
	Re  string
}

func (q c02Data) str() string { return q.Key + ":\"" + strings.ReplaceAll(q.Re, "\"", "\"\"") + "\"" }
func (q c02Data) eval(s *c02Stream, _ time.Time) bool {
	re := regexp.MustCompile(q.Re)
	switch q.Key {
	case "cdata":
		return re.MatchString(s.cData)
	case "sdata":
		return re.MatchString(s.sData)
	}
	return re.MatchString(s.cData) || re.MatchString(s.sData)
}

// a THEN chain of payload filters: each element is searched in its direction's payload from where the
// previous match ended; a match ending inside chunk i puts the other direction's position after chunk i
// NegLast: the last element is negated ("a then -b": a is found and b is not found after it)
type c02Then struct {
	E       []c02Data
	NegLast bool
}

func (q c02Then) str() string {
	var parts []string
	for i, e := range q.E {
		if q.NegLast && i == len(q.E)-1 {
			parts = append(parts, "-"+e.str())
		} else {
			parts = append(parts, e.str())
		}
	}
	return "(" + strings.Join(parts, " then ") + ")"
}

func (q c02Then) eval(s *c02Stream, _ time.Time) bool {
	data := [2]string{s.cData, s.sData}
	// cumulative lengths after every chunk
	cum := [][2]int{{0, 0}}
	client := !s.ServerFirst
	for _, ch := range s.Chunks {
		l := cum[len(cum)-1]
		if client {
			l[0] += len(ch)
		} else {
			l[1] += len(ch)
		}
		cum = append(cum, l)
		client = !client
	}
	off := [2]int{0, 0}
	vars := map[string]string{}
	for ei, e := range q.E {
		d := 0
		if e.Key == "sdata" {
			d = 1
		}
		// variables: @v@ stands for the (quoted) text that the named group v captured in an earlier element
		expr := e.Re
		for name, val := range vars {
			expr = strings.ReplaceAll(expr, "@"+name+"@", "(?:"+regexp.QuoteMeta(val)+")")
		}
		re := regexp.MustCompile(expr)
		sm := re.FindStringSubmatchIndex(data[d][off[d]:])
		if q.NegLast && ei == len(q.E)-1 {
			return sm == nil
		}
		if sm == nil {
			return false
		}
		for gi, gn := range re.SubexpNames() {
			if gn != "" && sm[2*gi] >= 0 {
				vars[gn] = data[d][off[d]:][sm[2*gi]:sm[2*gi+1]]
			} else if gn != "" {
				vars[gn] = "" // the group took no part in the match: empty text, as in regexp's submatches
			}
		}
		m := sm[:2]
		if m[1] != 0 {
			off[d] += m[1]
			for i := len(cum) - 1; i >= 1; i-- {
				if cum[i-1][d] < off[d] {
					off[1-d] = cum[i][1-d]
					break
				}
			}
		}
	}
	return true
}

// a tag filter: decided streams follow the stored match set, undecided ones the tag's definition
type c02TagModel struct {
	Name      string
	Matches   map[uint64]bool
	Uncertain map[uint64]bool
	Def       c02Q
}

var c02LongLived bool // the current population has streams whose last packet comes hours after the others

var c02Tags []*c02TagModel // tags of the current population (definitions only name earlier tags)

type c02Tag struct{ T *c02TagModel }

func (q c02Tag) str() string { return "tag:" + q.T.Name }
func (q c02Tag) eval(s *c02Stream, r time.Time) bool {
	if q.T.Uncertain[s.ID] {
		return q.T.Def.eval(s, r)
	}
	return q.T.Matches[s.ID]
}

// a number of the stream compared with the same kind of number of the streams a sub-query selects:
// "@s:<Sub> ... cport:@s:sport@" - some stream selected by Sub has this stream's client port as its server port
type c02SubRef struct {
	Key, SubKey string
	Mode        int   // 0 equal, 1 at most, 2 at least
	Off         int64 // the sub-query stream's value minus Off
	Sub         c02Q
	pop         map[uint64]*c02Stream
}

func c02NumOf(s *c02Stream, key string) int64 {
	switch key {
	case "cport":
		return int64(s.cPort)
	case "sport":
		return int64(s.sPort)
	case "cbytes":
		return int64(len(s.cData))
	case "sbytes":
		return int64(len(s.sData))
	}
	panic(key)
}
func (q c02SubRef) str() string {
	v := "@s:" + q.SubKey + "@"
	if q.Off != 0 {
		v += fmt.Sprintf("-%d", q.Off)
	}
	switch q.Mode {
	case 1:
		v = ":" + v
	case 2:
		v += ":"
	}
	return q.Key + ":" + v
}
func (q c02SubRef) eval(m *c02Stream, ref time.Time) bool {
	mv := c02NumOf(m, q.Key)
	for _, s := range q.pop {
		if !q.Sub.eval(s, ref) {
			continue
		}
		sv := c02NumOf(s, q.SubKey) - q.Off
		if q.Mode == 0 && mv == sv || q.Mode == 1 && mv <= sv || q.Mode == 2 && mv >= sv {
			return true
		}
	}
	return false
}

type c02And struct{ A, B c02Q }
type c02Or struct{ A, B c02Q }
type c02Not struct{ A c02Q }

func (q c02And) str() string                          { return "(" + q.A.str() + " " + q.B.str() + ")" }
func (q c02And) eval(s *c02Stream, r time.Time) bool  { return q.A.eval(s, r) && q.B.eval(s, r) }
func (q c02Or) str() string                           { return "(" + q.A.str() + " or " + q.B.str() + ")" }
func (q c02Or) eval(s *c02Stream, r time.Time) bool   { return q.A.eval(s, r) || q.B.eval(s, r) }
func (q c02Not) str() string                          { return "-" + q.A.str() }
func (q c02Not) eval(s *c02Stream, r time.Time) bool  { return !q.A.eval(s, r) }

// ---- generators ----

var (
	c02Addrs   = []string{"10.0.0.1", "10.0.0.2", "10.0.1.1", "192.168.0.1", "10.0.0.129", "fd00::1", "fd00::2", "fd00:0:1::1", "fd00::"}
	c02Ports   = []uint16{80, 443, 1234, 8080, 31337}
	c02Chunks  = []string{"foo", "bar", "GET /flag", "foobar", "baz", "xfoo", "ooo", "f", "oo", "flag{abc}", "caaa", "xababab"}
	c02AnchorRegexes = []string{"o$", "^foo", "\\bfoo", "bar\\b", "\\Aba", "z\\z", "^GET", "g\\b"}
	c02Regexes = []string{"foo", "ba[rz]", "o+b", "f.o", "foo|baz", "(GET|PUT) /", "flag\\{[a-c]+\\}", "o{3}", "oba", "xyz", "fo+bar", "[ab]aa", "[ab]abab", "[xo]oo"}
)

func genPopulation(rng *rand.Rand, maxStreams int) (versions []*c02Stream, nIdx int) {
	tieMode := rng.Intn(3) == 0
	nIdx = 1 + rng.Intn(3)
	n := 1 + rng.Intn(maxStreams)
	for id := 0; id < n; id++ {
		nv := 1
		if nIdx > 1 && rng.Intn(3) == 0 {
			nv = 2 + rng.Intn(nIdx-1)
		}
		idxs := rng.Perm(nIdx)[:nv]
		sort.Ints(idxs)
		for _, ix := range idxs {
			s := &c02Stream{ID: uint64(id), Index: ix}
			s.Client = netip.AddrPortFrom(netip.MustParseAddr(c02Addrs[rng.Intn(len(c02Addrs))]), c02Ports[rng.Intn(len(c02Ports))]).String()
			// both ends of one stream share the address family
			for {
				a := netip.MustParseAddr(c02Addrs[rng.Intn(len(c02Addrs))])
				if a.Is4() == netip.MustParseAddrPort(s.Client).Addr().Is4() {
					s.Server = netip.AddrPortFrom(a, c02Ports[rng.Intn(len(c02Ports))]).String()
					break
				}
			}
			s.FirstH = rng.Intn(40)
			if tieMode {
				// many streams with the same first packet time: a list of sort keys is decided by the later keys
				s.FirstH = []int{5, 20, 38}[rng.Intn(3)]
			}
			nch := rng.Intn(4)
			if os.Getenv("C02_THEN") != "" {
				nch = rng.Intn(7) // longer conversations for sequences
			}
			for k := nch; k > 0; k-- {
				s.Chunks = append(s.Chunks, c02Chunks[rng.Intn(len(c02Chunks))])
			}
			s.ServerFirst = len(s.Chunks) > 0 && rng.Intn(4) == 0
			s.UDP = rng.Intn(4) == 0
			if rng.Intn(4) == 0 {
				s.LongH = 1 + rng.Intn(30)
			}
			versions = append(versions, s)
		}
	}
	return
}

func genRanges(rng *rand.Rand, vals []int64) []c02Range {
	var rs []c02Range
	for k := 1 + rng.Intn(2); k > 0; k-- {
		a := vals[rng.Intn(len(vals))]
		switch rng.Intn(4) {
		case 0:
			rs = append(rs, c02Range{a, a})
		case 1:
			rs = append(rs, c02Range{a, -1})
		case 2:
			rs = append(rs, c02Range{-1, a})
		default:
			b := vals[rng.Intn(len(vals))]
			if a > b {
				a, b = b, a
			}
			rs = append(rs, c02Range{a, b})
		}
	}
	return rs
}

func genAtom(rng *rand.Rand, withData bool) c02Q {
	if withData && os.Getenv("C02_THEN") != "" && rng.Intn(2) == 0 {
		res := c02Regexes
		if os.Getenv("C02_ANCHORS") != "" {
			res = append(append([]string{}, c02Regexes...), c02AnchorRegexes...)
		}
		var th c02Then
		for k := 1 + rng.Intn(3); k > 0; k-- {
			th.E = append(th.E, c02Data{[]string{"cdata", "sdata"}[rng.Intn(2)], res[rng.Intn(len(res))]})
		}
		if os.Getenv("C02_VARS") != "" && rng.Intn(3) == 0 {
			// a named group in the first element, its text required again by a later element
			cap := []string{"(?P<v>ba[rz])", "(?P<v>fo+)", "(?P<v>[a-z]{3})", "x(?P<v>f.o)", "(?P<v>GET|PUT) /", "(?P<v>x)?fo", "(?:(?P<v>ba)|o)o"}[rng.Intn(7)]
			use := []string{"@v@", "@v@b", "o@v@", "@v@|xyz"}[rng.Intn(4)]
			th.E = []c02Data{{[]string{"cdata", "sdata"}[rng.Intn(2)], cap}, {[]string{"cdata", "sdata"}[rng.Intn(2)], use}}
			if rng.Intn(3) == 0 {
				th.E = append(th.E, c02Data{[]string{"cdata", "sdata"}[rng.Intn(2)], res[rng.Intn(len(res))]})
			}
			return th
		}
		if len(th.E) >= 2 && rng.Intn(5) == 0 {
			// the last element negated: the chain up to it is found, the last element is not found after it
			th.NegLast = true
			return th
		}
		if len(th.E) == 3 && rng.Intn(2) == 0 {
			// the same expression again later in the chain (expressions are shared between elements)
			th.E[2] = th.E[0]
			if rng.Intn(2) == 0 {
				th.E[1].Key = th.E[0].Key
			}
		}
		if len(th.E) == 2 && rng.Intn(4) == 0 {
			// ... or shared with another filter of the same conjunction
			return c02And{th.E[1], th}
		}
		return th
	}
	if len(c02Tags) > 0 && rng.Intn(3) == 0 {
		return c02Tag{c02Tags[rng.Intn(len(c02Tags))]}
	}
	n := 6
	if withData {
		n = 8
	}
	switch rng.Intn(n) {
	case 0:
		return c02Num{"id", genRanges(rng, []int64{0, 1, 2, 3, 5, 8})}
	case 1:
		return c02Num{[]string{"cport", "sport", "port"}[rng.Intn(3)], genRanges(rng, []int64{80, 443, 1234, 8080, 31337, 1000})}
	case 2:
		return c02Num{[]string{"cbytes", "sbytes", "bytes"}[rng.Intn(3)], genRanges(rng, []int64{0, 1, 3, 6, 9, 12})}
	case 3:
		a := c02Addrs[rng.Intn(len(c02Addrs))]
		var bits []int
		if rng.Intn(2) == 0 {
			if strings.Contains(a, ":") {
				bits = []int{[]int{16, 64, 127, 128, -16, -1, -128}[rng.Intn(7)]}
			} else {
				bits = []int{[]int{8, 24, 25, 31, 32, -8, -1, -32}[rng.Intn(8)]}
			}
		}
		h := c02Host{[]string{"chost", "shost", "host"}[rng.Intn(3)], a, bits}
		if rng.Intn(4) == 0 {
			// two filters on the same address with different masks in one conjunction
			var bits2 []int
			if strings.Contains(a, ":") {
				bits2 = []int{[]int{16, 48, 64, 127, 128, -16, -1, -128}[rng.Intn(8)]}
			} else {
				bits2 = []int{[]int{8, 24, 25, 31, 32, -8, -1, -32}[rng.Intn(8)]}
			}
			if rng.Intn(2) == 0 {
				// a network address under two prefix lengths (the masked addresses coincide)
				h.Addr, h.Bits = "fd00::", []int{[]int{48, 64}[rng.Intn(2)]}
				a, bits2 = "fd00::", []int{[]int{127, 128, 96}[rng.Intn(3)]}
			}
			var other c02Q = c02Host{h.Key, a, bits2}
			if rng.Intn(2) == 0 {
				other = c02Not{other}
			}
			return c02And{h, other}
		}
		return h
	case 4:
		return c02Proto{rng.Intn(3) != 0, rng.Intn(3) == 0, rng.Intn(8) == 0}
	case 5:
		lo, hi := -1, -1
		// bounds at half hours: stream times are at whole hours (+ a few seconds) before the reference
		if rng.Intn(3) != 0 {
			lo = 60*rng.Intn(50) + 30
		}
		if rng.Intn(3) != 0 {
			hi = 60*rng.Intn(50) + 30
		}
		if lo >= 0 && hi >= 0 && lo < hi {
			lo, hi = hi, lo
		}
		keys := []string{"ftime", "ltime", "time"}
		if c02LongLived {
			// "time:" is answered from the first and last packet time only (a stream whose packets skip the
			// range is still selected): with long lived streams only ftime/ltime have an exact meaning here
			keys = keys[:2]
		}
		return c02Time{keys[rng.Intn(len(keys))], lo, hi}
	default:
		return c02Data{[]string{"cdata", "sdata", "data"}[rng.Intn(3)], c02Regexes[rng.Intn(len(c02Regexes))]}
	}
}

func genQuery(rng *rand.Rand, depth int, withData bool, inNeg bool) c02Q {
	if depth == 0 || rng.Intn(3) == 0 {
		a := genAtom(rng, withData)
		if p, ok := a.(c02Proto); ok && !p.TCP && !p.UDP && !p.Self {
			a = c02Proto{true, false, false}
		}
		if !inNeg && rng.Intn(4) == 0 {
			return c02Not{a}
		}
		return a
	}
	switch n := rng.Intn(5); {
	case n < 2:
		return c02And{genQuery(rng, depth-1, withData, inNeg), genQuery(rng, depth-1, withData, inNeg)}
	case n < 4 || inNeg:
		return c02Or{genQuery(rng, depth-1, withData, inNeg), genQuery(rng, depth-1, withData, inNeg)}
	}
	// the normal form multiplies a negated disjunction out (and a double negation of a value list takes
	// hours): negated sub-queries stay small and contain no further negation
	d := depth - 1
	if d > 1 {
		d = 1
	}
	return c02Not{genQuery(rng, d, withData, true)}
}

// nfSize estimates the disjunctive normal form of a query: number of conjunctions and the size of the
// largest one. Negation multiplies out (size^count); queries whose normal form would be huge are skipped.
func nfSize(q c02Q) (n, k float64) {
	switch x := q.(type) {
	case c02Num:
		n, k = float64(len(x.R)), 2
		if x.Key == "port" || x.Key == "bytes" {
			n *= 2
		}
	case c02Host:
		n, k = 1, 1
		if x.Key == "host" {
			n = 2
		}
	case c02Proto:
		n, k = 0, 3
		if x.TCP {
			n++
		}
		if x.UDP {
			n++
		}
	case c02Time:
		n, k = 1, 2
		if x.Key == "time" {
			n = 2
		}
	case c02Data:
		n, k = 1, 1
		if x.Key == "data" {
			n = 2
		}
	case c02Then:
		n, k = 1, 1
	case c02Tag:
		// inlined as (decided) or (undecided and definition)
		n1, k1 := nfSize(x.T.Def)
		n, k = 1+n1, 1+k1
	case c02And:
		n1, k1 := nfSize(x.A)
		n2, k2 := nfSize(x.B)
		n, k = n1*n2, k1+k2
	case c02Or:
		n1, k1 := nfSize(x.A)
		n2, k2 := nfSize(x.B)
		n, k = n1+n2, k1
		if k2 > k {
			k = k2
		}
	case c02Not:
		n1, k1 := nfSize(x.A)
		n, k = 1, n1
		for i := 0; i < int(n1) && n < 1e9; i++ {
			n *= k1
		}
	}
	return
}

type c02Sort struct {
	Key  string
	Desc bool
}

func sortKeyCmp(key string, a, b *c02Stream) int {
	cmpU := func(x, y uint64) int {
		switch {
		case x < y:
			return -1
		case x > y:
			return 1
		}
		return 0
	}
	switch key {
	case "id":
		return cmpU(a.ID, b.ID)
	case "ftime":
		return a.first.Compare(b.first)
	case "ltime":
		return a.last.Compare(b.last)
	case "cbytes":
		return cmpU(uint64(len(a.cData)), uint64(len(b.cData)))
	case "sbytes":
		return cmpU(uint64(len(a.sData)), uint64(len(b.sData)))
	case "cport":
		return cmpU(uint64(a.cPort), uint64(b.cPort))
	case "sport":
		return cmpU(uint64(a.sPort), uint64(b.sPort))
	case "chost":
		return bytes.Compare(a.cAddr.AsSlice(), b.cAddr.AsSlice())
	case "shost":
		return bytes.Compare(a.sAddr.AsSlice(), b.sAddr.AsSlice())
	}
	panic(key)
}

func sortCmp(keys []c02Sort, a, b *c02Stream) int {
	if len(keys) == 0 {
		keys = []c02Sort{{"ftime", true}}
	}
	for _, k := range keys {
		c := sortKeyCmp(k.Key, a, b)
		if k.Desc {
			c = -c
		}
		if c != 0 {
			return c
		}
	}
	return 0
}

func keys(m map[uint64]bool) []uint64 {
	var l []uint64
	for k := range m {
		l = append(l, k)
	}
	sort.Slice(l, func(i, j int) bool { return l[i] < l[j] })
	return l
}

type c02Failure struct {
	Class  string `json:"class"`
	Input  string `json:"input"`
	Detail string `json:"detail"`
}

func TestC02Standin(t *testing.T) {
	rounds, _ := strconv.Atoi(os.Getenv("C02_ROUNDS"))
	if rounds == 0 {
		rounds = 40
	}
	nq, _ := strconv.Atoi(os.Getenv("C02_QUERIES"))
	if nq == 0 {
		nq = 60
	}
	maxStreams, _ := strconv.Atoi(os.Getenv("C02_STREAMS"))
	if maxStreams == 0 {
		maxStreams = 9
	}
	seed, _ := strconv.ParseInt(os.Getenv("STANDIN_SEED"), 10, 64)
	rng := rand.New(rand.NewSource(seed + 202))
	base := time.Now().Add(-48 * time.Hour).Truncate(time.Second)
	var failures []c02Failure
	classes := map[string]int{}
	evals, nontrivial := 0, 0
	var samples []string
	fail := func(class, input, detail string) {
		classes[class]++
		if classes[class] <= 5 {
			failures = append(failures, c02Failure{class, input, detail})
		}
	}
	for round := 0; round < rounds; round++ {
		versions, nIdx := genPopulation(rng, maxStreams)
		tmp := t.TempDir()
		readers := make([]*Reader, 0, nIdx)
		visible := map[uint64]*c02Stream{}
		for ix := 0; ix < nIdx; ix++ {
			w, err := NewWriter(tools.MakeFilename(tmp, "idx"))
			if err != nil {
				t.Fatal(err)
			}
			cnt := 0
			for _, v := range versions {
				if v.Index != ix {
					continue
				}
				v.prepare(base)
				si := v.info(base)
				if ok, err := w.AddStream(&si.s, v.ID); err != nil || !ok {
					t.Fatalf("AddStream: %v %v", ok, err)
				}
				visible[v.ID] = v // later index files hold the newer version
				cnt++
			}
			if cnt == 0 {
				// an index file needs a stream: give it one that a later file or nothing shadows
				v := &c02Stream{ID: uint64(100 + ix), Index: ix, Client: "10.9.9.9:1", Server: "10.9.9.8:2", FirstH: 1}
				v.prepare(base)
				si := v.info(base)
				if ok, err := w.AddStream(&si.s, v.ID); err != nil || !ok {
					t.Fatalf("AddStream: %v %v", ok, err)
				}
				versions = append(versions, v)
				visible[v.ID] = v
			}
			r, err := w.Finalize()
			if err != nil {
				t.Fatal(err)
			}
			readers = append(readers, r)
		}
		c02LongLived = false
		for _, v := range versions {
			if v.LongH != 0 {
				c02LongLived = true
			}
		}
		// tags (only when asked for): match/undecided sets over the stream ids and a definition that may
		// name earlier tags; the search gets them as TagDetails and must agree with the direct reading
		c02Tags = nil
		tagDetails := map[string]query.TagDetails(nil)
		tagDesc := ""
		if os.Getenv("C02_TAGS") != "" {
			tagDetails = map[string]query.TagDetails{}
			for ti, tn := range []string{"ta", "tb", "tc"} {
				tm := &c02TagModel{Name: tn, Matches: map[uint64]bool{}, Uncertain: map[uint64]bool{}}
				var def c02Q
				for {
					def = genQuery(rng, 1+rng.Intn(2), false, false)
					if n, _ := nfSize(def); n <= 12 {
						break
					}
				}
				tm.Def = def
				td := query.TagDetails{}
				for id := range visible {
					switch rng.Intn(3) {
					case 0:
						tm.Matches[id] = true
						td.Matches.Set(uint(id))
					case 1:
						tm.Uncertain[id] = true
						td.Uncertain.Set(uint(id))
						if rng.Intn(2) == 0 {
							td.Matches.Set(uint(id)) // a stale match bit under an undecided stream must not matter
						}
					}
				}
				dq, err := query.Parse(def.str())
				if err != nil {
					t.Fatalf("tag definition %q: %v", def.str(), err)
				}
				td.Conditions = dq.Conditions
				tagDetails["tag/"+tn] = td
				tagDesc += fmt.Sprintf(" tag/%s=%q undecided=%v matches=%v", tn, def.str(), keys(tm.Uncertain), keys(tm.Matches))
				c02Tags = append(c02Tags, tm) // later definitions may name this tag
				_ = ti
			}
		}
		pop, _ := json.Marshal(versions)
		for qi := 0; qi < nq; qi++ {
			ast := genQuery(rng, 1+rng.Intn(3), qi%2 == 0, false)
			if len(c02Tags) == 3 && rng.Intn(5) == 0 {
				// several tag filters in one conjunction (the undecided variants multiply)
				var parts []c02Q
				for _, tm := range c02Tags {
					var a c02Q = c02Tag{tm}
					if rng.Intn(3) == 0 {
						a = c02Not{a}
					}
					parts = append(parts, a)
				}
				ast = c02And{parts[0], c02And{parts[1], parts[2]}}
				if rng.Intn(2) == 0 {
					ast = c02And{ast, genQuery(rng, 0, false, true)}
				}
			}
			if n, _ := nfSize(ast); n > 120 {
				continue
			}
			if rng.Intn(3) == 0 {
				// a conjunct the index can answer from a lookup table (exercises the lookup-driven scans)
				ast = c02And{c02Num{"id", genRanges(rng, []int64{0, 1, 2, 3, 5, 8})}, ast}
			}
			// a restriction to a set of stream ids
			var restrict *bitmask.LongBitmask
			var restrictSet map[uint64]bool
			restrictDesc := ""
			if rng.Intn(4) == 0 {
				restrict, restrictSet = &bitmask.LongBitmask{}, map[uint64]bool{}
				for id := uint64(0); id < uint64(maxStreams)+2; id++ {
					if rng.Intn(2) == 0 {
						restrict.Set(uint(id))
						restrictSet[id] = true
					}
				}
				restrictDesc = fmt.Sprintf(" restricted to ids %v", keys(restrictSet))
			}
			// a sub-query and a filter that compares with its streams (not with tags or sequences)
			subStr := ""
			if os.Getenv("C02_TAGS") == "" && os.Getenv("C02_THEN") == "" && rng.Intn(4) == 0 {
				nk := []string{"cport", "sport", "cbytes", "sbytes"}
				ref := c02SubRef{Key: nk[rng.Intn(4)], Mode: rng.Intn(3), pop: visible}
				ref.SubKey = ref.Key
				if rng.Intn(3) == 0 {
					ref.SubKey = nk[rng.Intn(4)]
				}
				if rng.Intn(4) == 0 {
					ref.Off = []int64{1, 3, 363, 6846}[rng.Intn(4)]
				}
				if rng.Intn(2) == 0 {
					ref.Sub = c02Num{[]string{"cport", "sport"}[rng.Intn(2)], genRanges(rng, []int64{80, 443, 1234, 8080, 31337})}
				} else {
					ref.Sub = c02Num{"id", genRanges(rng, []int64{0, 1, 2, 3, 5, 8})}
				}
				ast = c02And{ref, ast}
				subStr = "@s:" + ref.Sub.str() + " "
			}
			var sorting []c02Sort
			sortStr := ""
			if rng.Intn(3) != 0 {
				keys := []string{"id", "ftime", "ltime", "cbytes", "sbytes", "cport", "sport", "chost", "shost"}
				for k := 1 + rng.Intn(2); k > 0; k-- {
					sorting = append(sorting, c02Sort{keys[rng.Intn(len(keys))], rng.Intn(2) == 0})
				}
				var ps []string
				for _, s := range sorting {
					if s.Desc {
						ps = append(ps, "-"+s.Key)
					} else {
						ps = append(ps, s.Key)
					}
				}
				sortStr = " sort:" + strings.Join(ps, ",")
			}
			limit := uint([]int{0, 1, 2, 3, 5, 100}[rng.Intn(6)])
			skip := uint(0)
			if limit != 0 && rng.Intn(3) == 0 {
				skip = limit * uint(rng.Intn(3))
			}
			qs := subStr + ast.str() + sortStr
			input := fmt.Sprintf("query=%q limit=%d skip=%d%s indexes=%d%s population=%s", qs, limit, skip, restrictDesc, nIdx, tagDesc, pop)
			if tr := os.Getenv("C02_TRACE"); tr != "" {
				os.WriteFile(tr, []byte(input), 0o644)
			}
			q, err := query.Parse(qs)
			if err != nil {
				fail("parse-error", input, err.Error())
				continue
			}
			evals++
			res, more, _, err := SearchStreams(context.Background(), readers, restrict, q.ReferenceTime, q.Conditions, q.Grouping, q.Sorting, limit, skip, tagDetails, map[string]ConverterAccess{}, false)
			if err != nil {
				fail("search-error", input, err.Error())
				continue
			}
			// what the query denotes on the visible streams
			var want []*c02Stream
			for _, v := range visible {
				if ast.eval(v, q.ReferenceTime) && (restrictSet == nil || restrictSet[v.ID]) {
					want = append(want, v)
				}
			}
			sort.SliceStable(want, func(i, j int) bool {
				if c := sortCmp(sorting, want[i], want[j]); c != 0 {
					return c < 0
				}
				return want[i].ID < want[j].ID
			})
			if len(want) > 0 && len(want) < len(visible) {
				nontrivial++
			}
			if len(samples) < 3 {
				samples = append(samples, qs)
			}
			lo, hi := int(skip), len(want)
			if lo > hi {
				lo = hi
			}
			if limit != 0 && lo+int(limit) < hi {
				hi = lo + int(limit)
			}
			page := want[lo:hi]
			got := make([]string, 0, len(res))
			for _, s := range res {
				got = append(got, strconv.FormatUint(s.StreamID, 10))
			}
			wantIDs := make([]string, 0, len(page))
			for _, s := range page {
				wantIDs = append(wantIDs, strconv.FormatUint(s.ID, 10))
			}
			detail := fmt.Sprintf("got [%s] more=%v, the query denotes %d streams, page [%s]", strings.Join(got, " "), more, len(want), strings.Join(wantIDs, " "))
			seen := map[uint64]bool{}
			bad := false
			for _, s := range res {
				v, ok := visible[s.StreamID]
				switch {
				case seen[s.StreamID]:
					fail("listed-twice", input, detail)
					bad = true
				case !ok || !ast.eval(v, q.ReferenceTime) || restrictSet != nil && !restrictSet[s.StreamID]:
					fail("not-denoted", input, detail)
					bad = true
				case s.ClientBytes != uint64(len(v.cData)) || s.ServerBytes != uint64(len(v.sData)) || s.ClientPort != v.cPort || s.ServerPort != v.sPort:
					fail("shadowed-version", input, detail)
					bad = true
				}
				seen[s.StreamID] = true
				if bad {
					break
				}
			}
			if bad {
				continue
			}
			if len(res) != len(page) {
				fail("page-size", input, detail)
				continue
			}
			// the page holds the right ranks: same sort keys position by position (ties may be broken either way)
			for i, s := range res {
				if sortCmp(sorting, visible[s.StreamID], page[i]) != 0 {
					fail("order", input, detail)
					bad = true
					break
				}
			}
			if bad {
				continue
			}
			if limit != 0 {
				if wantMore := len(want) > int(skip)+int(limit); more != wantMore {
					fail("more-flag", input, detail)
				}
			}
		}
		for _, r := range readers {
			r.Close()
		}
	}
	out := map[string]any{"evaluations": evals, "nontrivial": nontrivial, "samples": samples, "failures": failures, "rounds": rounds, "queries_per_round": nq, "max_streams": maxStreams, "classes": classes}
	if p := os.Getenv("C02_OUT"); p != "" {
		data, _ := json.MarshalIndent(out, "", " ")
		os.WriteFile(p, data, 0o644)
	}
	for i, f := range failures {
		if i < 12 {
			in := f.Input
			if len(in) > 300 {
				in = in[:300]
			}
			t.Log(f.Class, "|", f.Detail, "|", in)
		}
	}
	t.Logf("evaluations=%d nontrivial=%d failures=%v", evals, nontrivial, classes)
}
