package manager

// Bounded stand-in for C13 (labelled bounded, never counted as proved): index files live exactly as long
// as they are needed. lock/release and the pairing inside each completion closure are under contract; that
// the holders together (service list, views, import/merge/tagging jobs) keep every file alive across
// goroutine hand-offs, and that nothing is left behind, is checked here on generated histories of small
// imports (which trigger merges), tag edits (tagging jobs) and views opened, read and released in between:
//   - every index file a held view references exists and can be read (all streams with payload) at every step;
//   - after all views are released and the service is quiet, the index directory holds exactly the files
//     the service serves from, every served file is held exactly once, and nothing else is counted.
// The interleaving of job completions with the calls is whatever the scheduler produces. Injected with
// `go test -overlay`.

import (
	"context"
	"encoding/json"
	"fmt"
	"math/rand"
	"os"
	"path/filepath"
	"sort"
	"strconv"
	"strings"
	"testing"
	"time"
)

type c13Snapshot struct {
	served []string
	counts map[string]uint
}

func c13State(mgr *Manager) c13Snapshot {
	c := make(chan c13Snapshot)
	mgr.jobs <- func() {
		s := c13Snapshot{counts: map[string]uint{}}
		for _, idx := range mgr.indexes {
			s.served = append(s.served, filepath.Base(idx.Filename()))
		}
		for idx, n := range mgr.usedIndexes {
			s.counts[filepath.Base(idx.Filename())] += n
		}
		sort.Strings(s.served)
		c <- s
		close(c)
	}
	return <-c
}

// c13Read reads everything a view can show: every stream with its payload, and each stream again by id.
func c13Read(v *View) (int, error) {
	ctx, cancel := context.WithTimeout(context.Background(), 20*time.Second)
	defer cancel()
	var ids []uint64
	err := v.AllStreams(ctx, func(sc StreamContext) error {
		ids = append(ids, sc.Stream().ID())
		if _, err := sc.Data(""); err != nil {
			return fmt.Errorf("payload of stream %d: %w", sc.Stream().ID(), err)
		}
		return nil
	})
	if err != nil {
		return 0, err
	}
	for _, id := range ids {
		sc, err := v.Stream(id)
		if err != nil {
			return 0, fmt.Errorf("Stream(%d): %w", id, err)
		}
		if sc.Stream() == nil {
			return 0, fmt.Errorf("Stream(%d): listed by AllStreams but not found", id)
		}
		if _, err := sc.Data(""); err != nil {
			return 0, fmt.Errorf("payload of Stream(%d): %w", id, err)
		}
	}
	for _, idx := range v.indexes {
		if _, err := os.Stat(idx.Filename()); err != nil {
			return 0, fmt.Errorf("index file of a held view is gone: %w", err)
		}
	}
	return len(ids), nil
}

// c13Quiet waits until no job runs and no tag reports undecided streams, five polls in a row.
func c13Quiet(mgr *Manager, limit time.Duration) bool {
	deadline := time.Now().Add(limit)
	quietFor := 0
	for time.Now().Before(deadline) && quietFor < 5 {
		st := mgr.Status()
		busy := st.ImportJobCount != 0 || st.TaggingJobRunning || st.MergeJobRunning || st.ConverterJobRunning
		for _, ti := range mgr.ListTags() {
			if ti.UncertainCount != 0 {
				busy = true
			}
		}
		if busy {
			quietFor = 0
		} else {
			quietFor++
		}
		time.Sleep(10 * time.Millisecond)
	}
	return quietFor >= 5
}

func TestC13Standin(t *testing.T) {
	nHist, _ := strconv.Atoi(os.Getenv("C13_HISTORIES"))
	if nHist == 0 {
		nHist = 12
	}
	histLen, _ := strconv.Atoi(os.Getenv("C13_LEN"))
	if histLen == 0 {
		histLen = 30
	}
	seed, _ := strconv.ParseInt(os.Getenv("STANDIN_SEED"), 10, 64)
	rng := rand.New(rand.NewSource(seed + 1313))
	type failure struct {
		Class  string `json:"class"`
		Input  string `json:"input"`
		Detail string `json:"detail"`
	}
	var failures []failure
	classes := map[string]int{}
	evals, nontrivial, merges := 0, 0, 0
	var samples []string
	fail := func(class, input, detail string) {
		classes[class]++
		if classes[class] <= 5 {
			failures = append(failures, failure{class, input, detail})
		}
	}
	defs := []string{"cport:1:", "sport:9001", "cdata:foo", "id:0:3", "-cport:7"}
	for h := 0; h < nHist; h++ {
		d := makeTempdirs(t)
		mgr := makeManager(t, d)
		var ops []string
		type held struct {
			v    View
			born int
			n    int
		}
		var views []*held
		tags := map[string]bool{}
		nImports := 0
		filesSeen := map[string]bool{}
		for step := 0; step < histLen; step++ {
			switch r := rng.Intn(10); {
			case r < 5:
				// a small import: one or two new conversations, sometimes more data for an old one
				pk := []pcapOverIPPacket{makeUDPPacket(fmt.Sprintf("9.0.%d.%d:%d", h, nImports, 100+nImports), "2.3.4.5:9001", t1.Add(time.Second*time.Duration(nImports)), "foo")}
				if rng.Intn(2) == 0 {
					pk = append(pk, makeUDPPacket(fmt.Sprintf("9.1.%d.%d:%d", h, nImports, 100+nImports), "2.3.4.5:80", t1.Add(time.Second*time.Duration(nImports)+time.Millisecond), "bar"))
				}
				if nImports > 0 && rng.Intn(3) == 0 {
					o := rng.Intn(nImports)
					pk = append(pk, makeUDPPacket(fmt.Sprintf("9.0.%d.%d:%d", h, o, 100+o), "2.3.4.5:9001", t1.Add(time.Second*time.Duration(nImports)+2*time.Millisecond), "baz"))
				}
				pcaps, err := writePcaps(mgr.PcapDir, pk)
				if err != nil {
					t.Fatalf("writePcaps: %v", err)
				}
				mgr.ImportPcaps(pcaps)
				nImports++
				ops = append(ops, fmt.Sprintf("import#%d(%d packets)", nImports, len(pk)))
			case r < 7:
				if len(views) < 4 {
					hv := &held{v: mgr.GetView(), born: len(ops)}
					n, err := c13Read(&hv.v)
					if err != nil {
						fail("view-read-failed", strings.Join(ops, "; "), fmt.Sprintf("fresh view: %v", err))
						hv.v.Release()
						continue
					}
					hv.n = n
					views = append(views, hv)
					ops = append(ops, fmt.Sprintf("open view#%d (%d streams)", hv.born, n))
				}
			case r < 8:
				if len(views) > 0 {
					i := rng.Intn(len(views))
					views[i].v.Release()
					ops = append(ops, fmt.Sprintf("release view#%d", views[i].born))
					views = append(views[:i], views[i+1:]...)
				}
			case r < 9:
				n := []string{"tag/a", "tag/b", "service/s"}[rng.Intn(3)]
				def := defs[rng.Intn(len(defs))]
				if !tags[n] {
					if mgr.AddTag(n, "red", def) == nil {
						tags[n] = true
						ops = append(ops, fmt.Sprintf("AddTag(%s,%q)", n, def))
					}
				} else if mgr.UpdateTag(n, UpdateTagOperationUpdateQuery(def)) == nil {
					ops = append(ops, fmt.Sprintf("UpdateQuery(%s,%q)", n, def))
				}
			default:
				if rng.Intn(3) == 0 && nImports > 0 {
					// restart on the same directories: the loaded files are held once by the new service list
					for _, hv := range views {
						hv.v.Release()
					}
					views = nil
					// background jobs of the old service must be done: in one process they would go on
					// working in the directory the new service uses
					if !c13Quiet(mgr, 40*time.Second) {
						fail("never-quiet", strings.Join(ops, "; "), "after 40 s a job is still running")
					}
					mgr.Close()
					mgr = makeManager(t, d)
					ops = append(ops, "release all views; wait; restart")
				} else {
					time.Sleep(time.Duration(rng.Intn(40)) * time.Millisecond)
					ops = append(ops, "pause")
				}
			}
			// every held view still reads everything it showed when it was opened
			for _, hv := range views {
				evals++
				n, err := c13Read(&hv.v)
				_ = n // what a view shows (and that it stays the same) is C10's subject; here only that it can be read
				if err != nil {
					fail("view-read-failed", strings.Join(ops, "; "), fmt.Sprintf("view#%d: %v", hv.born, err))
				} else if len(ops) > hv.born+1 {
					nontrivial++
				}
			}
			for _, f := range c13State(mgr).served {
				filesSeen[f] = true
			}
		}
		for _, hv := range views {
			hv.v.Release()
		}
		ops = append(ops, "release all views")
		hist := strings.Join(ops, "; ")
		// wait until the service is quiet (and stays quiet: a finished job may start the next one)
		if !c13Quiet(mgr, 40*time.Second) {
			// settling is C09's subject; without quiescence the comparison below has no meaning
			fail("never-quiet", hist, "after 40 s a job is still running")
			mgr.Close()
			continue
		}
		if len(samples) < 3 {
			samples = append(samples, hist)
		}
		evals++
		snap := c13State(mgr)
		if len(filesSeen) > len(snap.served) {
			merges++
		}
		var onDisk []string
		ents, err := os.ReadDir(mgr.IndexDir)
		if err != nil {
			t.Fatalf("ReadDir: %v", err)
		}
		for _, e := range ents {
			onDisk = append(onDisk, e.Name())
		}
		sort.Strings(onDisk)
		if strings.Join(onDisk, " ") != strings.Join(snap.served, " ") {
			fail("directory", hist, fmt.Sprintf("index directory holds [%s], the service serves from [%s]", strings.Join(onDisk, " "), strings.Join(snap.served, " ")))
		}
		for _, f := range snap.served {
			if snap.counts[f] != 1 {
				fail("use-count", hist, fmt.Sprintf("served file %s is counted %d times at quiescence with no view open (1 expected: the service list)", f, snap.counts[f]))
			}
		}
		for f, n := range snap.counts {
			served := false
			for _, s := range snap.served {
				if s == f {
					served = true
				}
			}
			if !served {
				fail("use-count", hist, fmt.Sprintf("file %s is not served but still counted %d times at quiescence", f, n))
			}
		}
		if got := mgr.Status().IndexLockCount; got != uint(len(snap.served)) {
			fail("use-count", hist, fmt.Sprintf("Status.IndexLockCount = %d with %d served files and no view open", got, len(snap.served)))
		}
		// what is served can be read
		v := mgr.GetView()
		if _, err := c13Read(&v); err != nil {
			fail("view-read-failed", hist, fmt.Sprintf("view at quiescence: %v", err))
		}
		v.Release()
		mgr.Close()
	}
	out := map[string]any{"evaluations": evals, "nontrivial": nontrivial, "samples": samples, "failures": failures, "histories": nHist, "history_length": histLen, "histories_with_merge": merges, "classes": classes}
	if p := os.Getenv("C13_OUT"); p != "" {
		data, _ := json.MarshalIndent(out, "", " ")
		os.WriteFile(p, data, 0o644)
	}
	for i, f := range failures {
		if i < 8 {
			t.Log(f.Class, "|", f.Detail, "|", f.Input)
		}
	}
	t.Logf("evaluations=%d nontrivial=%d merges=%d failures=%v", evals, nontrivial, merges, classes)
}
