package regexanalysis

// Bounded stand-in for C18 (labelled bounded, never counted as proved): the memoised
// min/max walk and the constant-suffix walk are compared with brute-force matching for
// every expression of a small grammar. Injected with `go test -overlay`; not part of /repo.

import (
	"encoding/json"
	"fmt"
	"math"
	"os"
	"strconv"
	"strings"
	"testing"

	"rsc.io/binaryregexp"
)

type c18case struct {
	Re     string `json:"re"`
	Min    uint   `json:"min"`
	Max    uint   `json:"max"`
	Suffix string `json:"suffix"`
	Words  int    `json:"matching_words"`
}

func c18atoms() []string {
	return []string{"a", "b", "B", ".", "[ab]", "[^a]", "(?i:a)", "ab", "ba", "^", "$", `\b`, `\A`, `\z`, "(?:ab)*", "(?:ba)+?", "(?:a|ab)*"}
}

// expressions up to a given number of composition steps
func c18exprs(depth int) []string {
	cur := c18atoms()
	all := append([]string(nil), cur...)
	seen := map[string]bool{}
	for _, e := range all {
		seen[e] = true
	}
	add := func(e string, next *[]string) {
		if !seen[e] && len(e) <= 24 {
			seen[e] = true
			*next = append(*next, e)
			all = append(all, e)
		}
	}
	// sandwiches: something in front of a loop and something behind it (what is collected in front of a loop must not
	// be taken for part of a constant suffix)
	for _, l := range []string{"(?:ab)*", "(?:ba)+?", "(?:a|ab)*", "(?:ab)*?", "(?:b)+", "(?:ab){1,2}"} {
		for _, pre := range []string{"a", "b", "x", "ab", ""} {
			for _, post := range []string{"a", "b", "ab", "ba", "$", "b$"} {
				var dummy []string
				add(pre+l+post, &dummy)
			}
		}
	}
	for d := 0; d < depth; d++ {
		var next []string
		for _, e := range cur {
			g := "(?:" + e + ")"
			for _, q := range []string{"*", "+", "?", "{2}", "{1,2}", "{2,}"} {
				add(g+q, &next)
			}
			add("("+e+")", &next)
			add("(?i)"+e, &next)
			for _, a := range c18atoms() {
				add(e+a, &next)
				add(a+e, &next)
				add("(?:"+e+"|"+a+")", &next)
				add("x(?:"+e+"|"+a+")", &next)
				add("(?:"+e+"|"+a+")b", &next)
			}
		}
		cur = next
		if len(all) > 6000 {
			break
		}
	}
	return all
}

func c18words(maxLen int) []string {
	alpha := []byte{'a', 'b', 'A', 'B', 'x', '\n'}
	words := []string{""}
	prev := []string{""}
	for l := 1; l <= maxLen; l++ {
		var next []string
		for _, w := range prev {
			for _, c := range alpha {
				next = append(next, w+string(c))
			}
		}
		words = append(words, next...)
		prev = next
	}
	return words
}

func TestC18Standin(t *testing.T) {
	depth, _ := strconv.Atoi(os.Getenv("C18_DEPTH"))
	if depth == 0 {
		depth = 1
	}
	maxLen, _ := strconv.Atoi(os.Getenv("C18_MAXLEN"))
	if maxLen == 0 {
		maxLen = 5
	}
	words := c18words(maxLen)
	exprs := c18exprs(depth)
	var samples []c18case
	nontrivial := 0
	var failures []map[string]string
	fail := func(class, re, detail string) {
		failures = append(failures, map[string]string{"class": class, "input": re, "detail": detail})
	}
	emptyWidth := func(re string) bool {
		for _, op := range []string{"^", "$", `\b`, `\B`, `\A`, `\z`} {
			if strings.Contains(re, op) {
				return true
			}
		}
		return false
	}
	attainClass := func(re string) string {
		if emptyWidth(re) {
			return "attained-with-empty-width"
		}
		return "attained"
	}
	for _, re := range exprs {
		full, err := binaryregexp.Compile(`\A(?:` + re + `)\z`)
		if err != nil {
			continue
		}
		al, err := AcceptedLength(re)
		if err != nil {
			continue
		}
		suf, err := ConstantSuffix(re)
		if err != nil {
			continue
		}
		n := 0
		minSeen, maxSeen := math.MaxInt, -1
		for _, w := range words {
			if !full.MatchString(w) {
				continue
			}
			n++
			if len(w) < minSeen {
				minSeen = len(w)
			}
			if len(w) > maxSeen {
				maxSeen = len(w)
			}
			if uint(len(w)) < al.MinLength || uint(len(w)) > al.MaxLength {
				fail("length-bounds", re, fmt.Sprintf("re=%q matches %q (len %d) outside [%d,%d]", re, w, len(w), al.MinLength, al.MaxLength))
			}
			if !strings.HasSuffix(w, string(suf)) {
				fail("suffix", re, fmt.Sprintf("re=%q matches %q which does not end with computed suffix %q", re, w, suf))
			}
		}
		if n > 0 {
			nontrivial++
			// attained when finite (within the bound)
			if al.MinLength <= uint(maxLen) && uint(minSeen) != al.MinLength {
				fail(attainClass(re), re, fmt.Sprintf("re=%q: min length %d not attained (shortest match %d)", re, al.MinLength, minSeen))
			}
			if al.MaxLength <= uint(maxLen) && uint(maxSeen) != al.MaxLength {
				fail(attainClass(re), re, fmt.Sprintf("re=%q: max length %d not attained (longest match %d)", re, al.MaxLength, maxSeen))
			}
		}
		if len(samples) < 8 && n > 1 {
			samples = append(samples, c18case{re, al.MinLength, al.MaxLength, string(suf), n})
		}
	}
	out := map[string]any{"expressions": len(exprs), "nontrivial": nontrivial, "words": len(words), "max_word_len": maxLen, "depth": depth, "samples": samples, "failures": failures, "evaluations": len(exprs) * len(words)}
	if p := os.Getenv("C18_OUT"); p != "" {
		data, _ := json.MarshalIndent(out, "", " ")
		os.WriteFile(p, data, 0o644)
	}
	for i, f := range failures {
		if i < 10 {
			t.Log(f["class"], f["detail"])
		}
	}
	t.Logf("expressions=%d nontrivial=%d words=%d failures=%d", len(exprs), nontrivial, len(words), len(failures))
}
