#!/bin/sh
# builds the checker from files on disk only
set -e
cd "$(dirname "$0")"
. ./env.sh
mkdir -p bin evidence replays
(cd gvc && go build -o ../bin/gvc .)
echo "gvc built: $(./bin/gvc version 2>/dev/null || echo ok)"
