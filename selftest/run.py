#!/usr/bin/env python3
"""Must-fail corpus: every case is a small property-breaking edit of /repo applied to a scratch copy
(outside /repo and /verif, removed afterwards); the named obligation must stop being discharged.
A case that still verifies means the engine (or a contract) has a hole."""
import json, os, re, shutil, subprocess, sys, tempfile
here = os.path.dirname(os.path.abspath(__file__))
cases = json.load(open(os.path.join(here, 'cases.json')))
only = sys.argv[1] if len(sys.argv) > 1 else None
env = dict(os.environ)
env['PATH'] = '/opt/veriftools/go1.26.8/bin:' + env['PATH']
env.update(GOFLAGS='-mod=mod', GOPROXY='off', GOSUMDB='off', GOTOOLCHAIN='local')
bad = 0
for c in cases:
    if only and only not in c['name']:
        continue
    scratch = tempfile.mkdtemp(prefix='gvc-selftest-')
    try:
        subprocess.run(['rsync', '-a', '--exclude', '.git', '/repo/', scratch + '/'], check=True)
        p = os.path.join(scratch, c['file'])
        s = open(p).read()
        if c['old'] not in s:
            print(f"SELFTEST {c['name']}: STALE (pattern not found in {c['file']})"); bad += 1; continue
        open(p, 'w').write(s.replace(c['old'], c['new'], 1))
        # cmd/pkappa2 cannot be linked in this sandbox (web/web.go embeds the frontend build, which is absent):
        # there the edit is only type-checked by the loader of gvc
        b = subprocess.run(['go', 'build', './' + os.path.dirname(c['file'])], cwd=scratch, env=env, capture_output=True, text=True)
        if b.returncode != 0 and not c['file'].startswith('cmd/'):
            print(f"SELFTEST {c['name']}: DOES NOT COMPILE {b.stderr[:200]}"); bad += 1; continue
        e = dict(env); e['GVC_REPO'] = scratch
        r = subprocess.run([os.environ.get('GVC_BIN', '/verif/bin/gvc'), 'verify', '-f', c['func'], '-t', '20', c['pkg']], env=e, capture_output=True, text=True)
        failing = re.findall(r'^\s+(?:refuted|unknown|vacuous)\s+(\S.*?)\s+inst=', r.stdout, re.M)
        hit = [f for f in failing if re.search(c['expect'], f)]
        if hit:
            print(f"SELFTEST {c['name']}: caught by {hit[0]}")
        else:
            print(f"SELFTEST {c['name']}: MISSED (failing: {failing[:3]})"); bad += 1
    finally:
        shutil.rmtree(scratch, ignore_errors=True)
print('selftest:', 'OK' if bad == 0 else f'{bad} problem(s)')
sys.exit(1 if bad else 0)
