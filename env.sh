# toolchain environment for every /verif command (offline)
export PATH=/opt/veriftools/go1.26.8/bin:$PATH
export GOFLAGS=-mod=mod GOPROXY=off GOSUMDB=off GOTOOLCHAIN=local
export GOCACHE=${GOCACHE:-/root/.cache/go-build}
