#!/bin/bash
# Runs every claimed check in the thorough tier on the clean tree (long: tens of minutes).
cd /verif
. ./env.sh
if [ -n "$(git -C /repo status --porcelain)" ]; then echo "refusing: /repo has uncommitted changes"; exit 2; fi
for id in $(python3 -c "import json;print(' '.join(c['property_id'] for c in json.load(open('MANIFEST.json'))['checks']))"); do
  /usr/bin/time -f "$id thorough: %es" ./check $id thorough 2>&1 | grep -E "^property|^VIOLATION|^  bounded|^  obligation|thorough:" | cut -c1-260
done
