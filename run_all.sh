#!/bin/sh
# runs every claimed check on the current tree (quick tier) and validates the evidence
cd "$(dirname "$0")"
[ -n "$(git -C /repo status --porcelain)" ] && { echo "/repo has uncommitted changes"; git -C /repo status --short; }
rc=0
for id in $(python3 -c "import json;print(' '.join(c['property_id'] for c in json.load(open('MANIFEST.json'))['checks']))"); do
  ./check $id "${1:-quick}" | grep -E "^(VIOLATION|KNOWN-FINDING|property)" | cut -c1-180 || rc=1
done
./validate.py | tail -1
exit $rc
