#!/opt/veriftools/pyvenv/bin/python3
import json, sys, jsonschema, glob
m = json.load(open('/verif/MANIFEST.json'))
jsonschema.validate(m, json.load(open('/root/.vp/MANIFEST.schema.json')))
print('MANIFEST ok:', [c['property_id'] for c in m['checks']])
es = json.load(open('/root/.vp/EVIDENCE.schema.json'))
for f in sorted(glob.glob('/verif/evidence/*.json')):
    jsonschema.validate(json.load(open(f)), es)
    print('evidence ok:', f)
props = [json.loads(l)['id'] for l in open('/verif/properties.jsonl')]
claimed = {c['property_id'] for c in m['checks']}
na = {n['property_id'] for n in m.get('not_applicable', [])}
assert claimed | na == set(props) and not (claimed & na), (claimed, na)
print('all', len(props), 'properties accounted for')
